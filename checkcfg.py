# Per-property configuration of the driver: which tests, how many cases per tier, evidence rule.
NOT_APPLICABLE = {}

PROPS = {
    "C01": {
        "level": "exploration",
        "technique": "property-based testing (rapid) of header.Verify against a reference model written from the statement, plus complete enumeration of the feature-class product",
        "level_text": "Generated-input search with a reference-model oracle: 20k (quick) / 2M (thorough) random pairs plus the complete 144k-combination class product, each compared with a model of the statement (set of failing sentinels, type-level outcome, soft flag). Inputs are the whole quantifier, so exploration with an exhaustive class product is the right level for a pure function.",
        "level_note": "Trusts the vh header model and the frozen synctest clock; magnitudes inside a class are sampled, not enumerated; any failing sentinel is accepted when several mandatory checks fail.",
        "rule": "rapid draws feature classes (zero/non-zero, chain-id relation, height relation incl. uint64 edges, "
                "time vs trusted at ±1ns, time vs now at drift±1ns, 8 shapes of type-level result) plus magnitudes; "
                "additionally the complete class product is enumerated. Non-trivial = >=2 mandatory conditions fail "
                "together or a boundary class (equal/±1ns times, drift±1ns, wrapped/joined VerifyError, adjacent+soft, "
                "height wrap). Distinct = distinct feature vector.",
        "exhaustive_part": "class product of 144000 combinations (TestC01Enum) is enumerated completely; magnitudes inside classes are sampled",
        "assumptions": ["clock-drift allowance read from the tree through the verif hook", "bubble clock is frozen, so now is exact"],
        "tests": [
            {"name": "TestC01", "quick": 20000, "thorough": 2000000},
            {"name": "TestC01Enum", "rapid": False},
        ],
    },
}
