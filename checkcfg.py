# Per-property configuration of the driver: which tests, how many cases per tier, evidence rule.
NOT_APPLICABLE = {}

PROPS = {
    "C01": {
        "level": "exploration",
        "technique": "property-based testing (rapid) of header.Verify against a reference model written from the statement, plus complete enumeration of the feature-class product",
        "level_text": "Generated-input search with a reference-model oracle: 20k (quick) / 2M (thorough) random pairs plus the complete 144k-combination class product, each compared with a model of the statement (set of failing sentinels, type-level outcome, soft flag). Inputs are the whole quantifier, so exploration with an exhaustive class product is the right level for a pure function.",
        "level_note": "Trusts the vh header model and the frozen synctest clock; magnitudes inside a class are sampled, not enumerated; any failing sentinel is accepted when several mandatory checks fail.",
        "rule": "rapid draws feature classes (zero/non-zero, chain-id relation, height relation incl. uint64 edges, "
                "time vs trusted at ±1ns, time vs now at drift±1ns, 8 shapes of type-level result) plus magnitudes; "
                "additionally the complete class product is enumerated. Non-trivial = >=2 mandatory conditions fail "
                "together or a boundary class (equal/±1ns times, drift±1ns, wrapped/joined VerifyError, adjacent+soft, "
                "height wrap). Distinct = distinct feature vector.",
        "exhaustive_part": "class product of 144000 combinations (TestC01Enum) is enumerated completely; magnitudes inside classes are sampled",
        "assumptions": ["clock-drift allowance read from the tree through the verif hook", "bubble clock is frozen, so now is exact"],
        "tests": [
            {"name": "TestC01", "quick": 20000, "thorough": 2000000},
            {"name": "TestC01Enum", "rapid": False},
        ],
    },
    "C02": {
        "level": "exploration",
        "technique": "property-based testing (rapid) of header.VerifyRange against a naive reference loop written from the statement",
        "level_text": "Generated-input search with a reference-loop oracle: sequences built from a canonical chain segment (non-adjacent first element inside/outside the trust span, lengths 0..200) with up to 3 drawn mutations (gap, dup, swap, nil, forged, forked, wrong chain, time regress, future, below-trusted); the result must be pointer-identical to input[:k] and err==nil iff k==len>0.",
        "level_note": "header.Verify is used as the step predicate on purpose (its own correctness is C01's job); trusts the vh header model.",
        "rule": "rapid draws trusted height/span, first-element gap, length and 0..3 mutations at drawn positions. Non-trivial = first failure strictly inside the range (0<k<len) or an accepted non-adjacent first element. Distinct = distinct (len, k, mutation kinds, gap, trusted span).",
        "assumptions": ["vh.Header type-level Verify (lineage, hash link, trust span) stands in for a real header type"],
        "tests": [{"name": "TestC02", "quick": 20000, "thorough": 1000000}],
    },
    "C04": {
        "level": "exploration",
        "technique": "stateful property-based testing (rapid-generated operation histories) of store.Store against a set+anchor-run reference model, in a synctest bubble",
        "level_text": "Model-based stateful testing: histories of 5-40 operations (appends next/above a gap/filling/below tail/repeats, ascending and descending batches, Sync, settle, prefix/suffix/whole DeleteRange, restart by new Store or Stop+Start, range probes) over batch sizes 1..64, cache sizes 1..2048 and both datastore flavours; after every step every observable (Head, Tail, Height, GetByHeight, Get, Has, HasAt, GetRange, GetRangeByHeight) is compared with the model.",
        "level_note": "First append into an empty store is a contiguous ascending run (ensureInit's precondition, counted as excluded otherwise); quiescence is judged by synctest.Wait, never by sleeping; in-memory datastores (plain and context-aware with atomic batches + snapshot read transactions).",
        "rule": "rapid draws a configuration and a history of relative operations resolved against the model at execution time. Non-trivial = a gap was created and later filled, or a restart happened with unflushed headers, or batch size 1 / cache size 2. Distinct = distinct scenario JSON.",
        "assumptions": ["headers come from one canonical chain", "first batch into an empty store is contiguous ascending"],
        "tests": [{"name": "TestC04", "quick": 1500, "thorough": 80000, "gomaxprocs": 1}],
    },
    "C08": {
        "level": "exploration",
        "technique": "stateful property-based testing (rapid) of Store.DeleteRange against the store model: boundary (from,to) pairs, unflushed stores, part-way failures and continuations",
        "level_text": "Model-based testing of DeleteRange: generated store states (flushed/unflushed mix, orphans above a gap, sequential and parallel deletion path), (from,to) drawn from boundary selectors {0,T-1,T,T+1,T+k,H+1-k,H,H+1,H+2,MaxUint64}, handler errors/panics and virtual-time deadlines for part-way failures, then a continuation of appends, syncs and restarts. Oracle: invalid => error and no observable change incl. the raw key set; nil => range unreadable and its hash and height keys gone now and after the continuation; part-way failure => outside untouched, pointers resolve, retry completes.",
        "level_note": "Datastore write faults are not injected here (the quantifier has no fault sequences; C06 owns them). After a head-side part-way failure nothing further is demanded (statement). Parallel-delete threshold lowered to 2 through the verif hook in 1/4 of the cases.",
        "rule": "Non-trivial = a valid range over a store with unflushed headers, or followed by append+restart, or failed part-way. Distinct = distinct scenario JSON.",
        "assumptions": ["headers come from one canonical chain"],
        "tests": [{"name": "TestC08", "quick": 2000, "thorough": 100000, "gomaxprocs": 1, "env": {"GODEBUG": "asyncpreemptoff=1"}}],
    },
    "C14": {
        "level": "fault_enumeration",
        "technique": "stateful property-based testing (rapid) with handler-fault injection at every position of the deleted range; handler log compared with what actually disappeared",
        "level_text": "Generated deletions (prefix, suffix, whole; flushed and unflushed; sequential and parallel path) with 1-4 handlers failing by error, panic or virtual-time deadline at a drawn height of the range; the handlers record (attempt, height, readable by height?, by hash?). Oracle: every height that became unreadable had each handler called exactly once while readable; a failing handler's header stays; DeleteRange returns the error and never panics; a tail-side retry calls the handlers again and completes.",
        "level_note": "Handler failure positions are drawn (all offsets 0..12 of the range), not exhaustively enumerated per range; datastore faults excluded (C06).",
        "rule": "Non-trivial = valid range with >=1 handler and (failure strictly inside the range, or whole-store deletion, or unflushed headers in the store). Distinct = distinct scenario JSON.",
        "assumptions": ["headers come from one canonical chain"],
        "tests": [{"name": "TestC14", "quick": 2000, "thorough": 100000, "gomaxprocs": 1, "env": {"GODEBUG": "asyncpreemptoff=1"}}],
    },
    "C06": {
        "level": "fault_enumeration",
        "technique": "property-based generation of store histories (rapid) + exhaustive enumeration of every commit-log prefix as a crash image, and injected runs of failing datastore writes; reopened store judged by an invariant oracle",
        "level_text": "For each generated append/sync/delete/restart history on a recording datastore, EVERY prefix of the commit log (each direct write and each batch commit atomic) is rebuilt as a crash image and a fresh Store is opened on it: Start must succeed, Head/Tail (when present) resolve, every height between them is retrievable, every header of a committed batch not inside a started DeleteRange is retrievable, and appending the continuation moves Head to the new tip of a gap-free run. Clean restarts must reproduce Head/Tail/all headers. A second engine runs the same histories with N in {1,2,3,5} consecutive failing writes at a drawn position and judges the surviving data the same way.",
        "level_note": "Batch commits are atomic and images are log prefixes (as the statement says); fault placements (i,N) are drawn, not enumerated; in-memory datastore flavours.",
        "rule": "Crash engine: non-trivial = a crash point strictly inside a DeleteRange's write sequence, or >=2 flush commits with a Stop right after an Append. Fault engine: non-trivial = the fault window actually failed >=1 write. Distinct = distinct scenario JSON. evaluations counts histories; extra_counts.crash_images_checked counts reopened images.",
        "assumptions": ["batch commits atomic; crash images are prefixes of the commit log (no reordering, no torn batches)"],
        "extra_as_evaluations": [],
        "tests": [
            {"name": "TestC06", "quick": 300, "thorough": 20000, "gomaxprocs": 1},
            {"name": "TestC06Faults", "quick": 600, "thorough": 40000, "gomaxprocs": 1},
        ],
    },
    "C12": {
        "level": "exploration",
        "technique": "schedule exploration: rapid-generated interleaving tapes drive a controlled scheduler (synctest + yield hooks in the store) over readers, writers and cancellations; blocked/woken readers judged at quiescence",
        "level_text": "Generated schedules at yield-point granularity: 1-3 GetByHeight readers (shared heights, below-tail heights, contexts cancelled at drawn steps) against 1-3 writers appending contiguous, gapped and out-of-order chunks; the tape decides which parked goroutine runs next (yield points: between lookup and subscription, inside heightSub.Wait, after pending.Append, after Notify, after advanceHead, after commit). Oracle at final quiescence: no reader of an appended height is blocked, each got the right header, never-appended heights keep waiting until cancelled, a cancelled context always releases.",
        "level_note": "Interleavings are explored only at instrumented yield points with GOMAXPROCS=1; liveness is judged as state at quiescence in virtual time. On an initially empty store ErrNotFound is accepted for a height below the first batch (it was 'at or below Height and not stored').",
        "rule": "Non-trivial = the trace shows the window being hit: a reader parked between its failed lookup and its subscription while the flush loop's Notify ran. Distinct = distinct scenario JSON (incl. tape).",
        "assumptions": ["yield-point granularity", "removing a yield call site only reduces explored interleavings"],
        "tests": [{"name": "TestC12", "quick": 3000, "thorough": 150000, "gomaxprocs": 1, "env": {"GODEBUG": "asyncpreemptoff=1"}}],
    },
    "C17": {
        "level": "exploration",
        "race": True,
        "technique": "schedule exploration with a controlled scheduler (engine A) plus randomised real-thread runs under the race detector (engine B); per-reader and global monotonicity, read-your-writes after Sync, and differential comparison with the sequential store model",
        "level_text": "Engine A: 2-4 writers (disjoint/overlapping/interleaved chunks), 1-2 readers (Head, Height, GetByHeight/Get of that head), optional Sync+read-back per writer and one tail-side deleter, interleaved by a generated tape at the store's yield points; Head/Height monotone per reader and in the global serial order, Head() retrievable, Append+Sync => readable, final store == sequential model. Engine B: the same task mix on real goroutines (GOMAXPROCS=16, -race build, Gosched jitter), 5 repetitions per scenario; a race report with a stack in /repo is a violation.",
        "level_note": "Engine B is probabilistic: a clean run is weaker evidence than engine A's. Head-side deletion and wipe are excluded (they lower Head by design).",
        "rule": "Engine A: non-trivial = a reader step or the delete was released while a flush-loop yield point was parked (observation between two flush steps / delete overlapping an append). Engine B: every run counts (real threads). Distinct = distinct scenario JSON.",
        "assumptions": ["yield-point granularity for engine A", "engine B samples real schedules"],
        "tests": [
            {"name": "TestC17", "quick": 2000, "thorough": 100000, "gomaxprocs": 1, "env": {"GODEBUG": "asyncpreemptoff=1"}},
            {"name": "TestC17Real", "quick": 120, "thorough": 6000, "race": True, "gomaxprocs": 16, "shards_quick": 1, "shards_thorough": 4, "nondeterministic": True},
        ],
    },
    "C10": {
        "level": "exploration",
        "technique": "property-based testing (rapid) of a real ExchangeServer over mocknet with boundary (origin, amount)/hash/empty/raw requests against a store-read log and a reply oracle; native coverage-guided fuzzing of raw request bytes with the same oracle",
        "level_text": "A real ExchangeServer over a real Store behind a recording proxy (tail in {1,2,5,90}, length in {1,3,70,140}) receives sequences of requests on raw streams: origin from {0,1,tail-1,tail,mid,head-1,head,head+1,far,2^64-1,2^64-64} x amount from {0,1,2,63,64,65,10000,2^64-1,2^64-6}, known/unknown/empty/oversized hashes, empty oneof, arbitrary bytes. Oracle: stream ends within read+request+write deadlines (virtual time), every store read stays inside the requested heights and <=64 headers, reply is a reset, one NOT_FOUND, or OK frames that are exactly the store's headers origin.. in order (short only past the head); head request => store head; hash request => that header. Thorough adds native fuzzing of the raw request bytes.",
        "level_note": "Deadlines are set through the exported options and measured in virtual time; the fuzz target uses one fixed pruned store (tail 5, head 74).",
        "rule": "Non-trivial = the request sequence contains a boundary request (tail-1/tail/head-1/head/head+1/overflow origins, amounts 63/64/65/overflow, hash just below the tail) against a store whose tail is above 1. Distinct = distinct scenario JSON.",
        "assumptions": ["mocknet transport stands in for real libp2p streams"],
        "extra_as_evaluations": ["fuzz_execs"],
        "tests": [
            {"name": "TestC10", "quick": 400, "thorough": 40000},
            {"name": "FuzzC10Request", "fuzz": True, "fuzztime": "180s"},
        ],
    },
}
