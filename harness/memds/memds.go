// Package memds provides the in-memory datastores the store checks run on: plain or
// context-aware (batches + snapshot read transactions), with a commit log (crash images)
// and write-fault injection.
package memds

import (
	"context"
	"errors"
	"sort"
	"sync"

	"github.com/ipfs/go-datastore"
	contextds "github.com/ipfs/go-datastore/context"
	"github.com/ipfs/go-datastore/query"
)

// ErrInjected is returned by writes inside a fault window.
var ErrInjected = errors.New("memds: injected write failure")

// ErrInjectedRead is returned by reads when read faults are on.
var ErrInjectedRead = errors.New("memds: injected read failure")

// Op is one mutation.
type Op struct {
	Del bool   `json:"del,omitempty"`
	Key string `json:"key"`
	Val []byte `json:"val,omitempty"`
}

// Entry is one atomic unit of the commit log: a direct write or a batch/txn commit.
type Entry struct {
	Batch bool `json:"batch,omitempty"`
	Ops   []Op `json:"ops"`
}

// Mark records that the harness saw an operation complete when the log had Pos entries.
type Mark struct {
	Pos  int    `json:"pos"`
	What string `json:"what"`
}

// Mem is the base datastore.
type Mem struct {
	mu  sync.Mutex
	m   map[string][]byte
	log []Entry

	Record bool
	marks  []Mark

	// fault injection: write attempts (direct writes and commits) with index in
	// [FailFrom, FailFrom+FailN) fail atomically. FailN == 0 disables.
	writeAttempts int
	FailFrom      int
	FailN         int
	failedWrites  int
	failDelNth    int
	// FailDeletesOnly restricts the fault window to direct deletes and batches containing deletes.
	ReadFail func(key string) bool
	// Yield, if set, is called (without holding the lock) before every read and every write reaches the
	// datastore: a yield point for the controlled scheduler at datastore-access granularity.
	Yield func(point string)
}

func (d *Mem) yield(point string) {
	if y := d.Yield; y != nil {
		y(point)
	}
}

// New returns an empty datastore.
func New() *Mem { return &Mem{m: map[string][]byte{}} }

// FromImage builds a datastore holding the effects of the given log prefix.
func FromImage(log []Entry) *Mem {
	d := New()
	for _, e := range log {
		d.apply(e.Ops)
	}
	return d
}

func (d *Mem) apply(ops []Op) {
	for _, o := range ops {
		if o.Del {
			delete(d.m, o.Key)
		} else {
			d.m[o.Key] = o.Val
		}
	}
}

// commit applies ops atomically (or fails atomically inside a fault window).
func (d *Mem) commit(ops []Op, batch bool) error {
	d.yield("ds:write")
	d.mu.Lock()
	defer d.mu.Unlock()
	idx := d.writeAttempts
	d.writeAttempts++
	if d.failDelNth > 0 && hasDel(ops) {
		d.failDelNth--
		if d.failDelNth == 0 {
			d.failedWrites++
			return ErrInjected
		}
	}
	if d.FailN > 0 && idx >= d.FailFrom && idx < d.FailFrom+d.FailN {
		d.failedWrites++
		return ErrInjected
	}
	d.apply(ops)
	if d.Record {
		cp := make([]Op, len(ops))
		copy(cp, ops)
		d.log = append(d.log, Entry{Batch: batch, Ops: cp})
	}
	return nil
}

func hasDel(ops []Op) bool {
	for _, o := range ops {
		if o.Del {
			return true
		}
	}
	return false
}

// ArmDeleteFault makes the n-th (1-based) write attempt from now that contains a delete - a direct Delete or
// a batch commit with deletes - fail once (atomically); n <= 0 disarms.
func (d *Mem) ArmDeleteFault(n int) {
	d.mu.Lock()
	d.failDelNth = max(n, 0)
	d.mu.Unlock()
}

// SetFaults arms a fault window relative to the *current* number of write attempts.
func (d *Mem) SetFaults(afterMore, n int) {
	d.mu.Lock()
	d.FailFrom, d.FailN = d.writeAttempts+afterMore, n
	d.mu.Unlock()
}

// ClearFaults disables fault injection.
func (d *Mem) ClearFaults() {
	d.mu.Lock()
	d.FailN = 0
	d.mu.Unlock()
}

// FailedWrites reports how many writes were failed by injection.
func (d *Mem) FailedWrites() int {
	d.mu.Lock()
	defer d.mu.Unlock()
	return d.failedWrites
}

// WriteAttempts reports the number of write attempts so far.
func (d *Mem) WriteAttempts() int {
	d.mu.Lock()
	defer d.mu.Unlock()
	return d.writeAttempts
}

// Log returns a copy of the commit log.
func (d *Mem) Log() []Entry {
	d.mu.Lock()
	defer d.mu.Unlock()
	return append([]Entry(nil), d.log...)
}

// LogLen returns the current log length.
func (d *Mem) LogLen() int {
	d.mu.Lock()
	defer d.mu.Unlock()
	return len(d.log)
}

// MarkAck notes a harness-level acknowledgement at the current log position.
func (d *Mem) MarkAck(what string) {
	d.mu.Lock()
	d.marks = append(d.marks, Mark{Pos: len(d.log), What: what})
	d.mu.Unlock()
}

// Marks returns the acknowledgement marks.
func (d *Mem) Marks() []Mark {
	d.mu.Lock()
	defer d.mu.Unlock()
	return append([]Mark(nil), d.marks...)
}

// Keys returns all keys, sorted.
func (d *Mem) Keys() []string {
	d.mu.Lock()
	defer d.mu.Unlock()
	ks := make([]string, 0, len(d.m))
	for k := range d.m {
		ks = append(ks, k)
	}
	sort.Strings(ks)
	return ks
}

// Snapshot returns a copy of the content.
func (d *Mem) Snapshot() map[string][]byte {
	d.mu.Lock()
	defer d.mu.Unlock()
	cp := make(map[string][]byte, len(d.m))
	for k, v := range d.m {
		cp[k] = v
	}
	return cp
}

// ---- datastore.Datastore ----

func (d *Mem) Get(_ context.Context, key datastore.Key) ([]byte, error) {
	d.yield("ds:get")
	d.mu.Lock()
	defer d.mu.Unlock()
	if d.ReadFail != nil && d.ReadFail(key.String()) {
		return nil, ErrInjectedRead
	}
	v, ok := d.m[key.String()]
	if !ok {
		return nil, datastore.ErrNotFound
	}
	return append([]byte(nil), v...), nil
}

func (d *Mem) Has(_ context.Context, key datastore.Key) (bool, error) {
	d.yield("ds:has")
	d.mu.Lock()
	defer d.mu.Unlock()
	if d.ReadFail != nil && d.ReadFail(key.String()) {
		return false, ErrInjectedRead
	}
	_, ok := d.m[key.String()]
	return ok, nil
}

func (d *Mem) GetSize(ctx context.Context, key datastore.Key) (int, error) {
	v, err := d.Get(ctx, key)
	if err != nil {
		return -1, err
	}
	return len(v), nil
}

func (d *Mem) Query(_ context.Context, q query.Query) (query.Results, error) {
	d.mu.Lock()
	es := make([]query.Entry, 0, len(d.m))
	for k, v := range d.m {
		es = append(es, query.Entry{Key: k, Value: v, Size: len(v)})
	}
	d.mu.Unlock()
	r := query.ResultsWithEntries(q, es)
	return query.NaiveQueryApply(q, r), nil
}

func (d *Mem) Put(_ context.Context, key datastore.Key, value []byte) error {
	return d.commit([]Op{{Key: key.String(), Val: append([]byte(nil), value...)}}, false)
}

func (d *Mem) Delete(_ context.Context, key datastore.Key) error {
	return d.commit([]Op{{Del: true, Key: key.String()}}, false)
}

func (d *Mem) Sync(context.Context, datastore.Key) error { return nil }
func (d *Mem) Close() error                              { return nil }

func (d *Mem) Batch(context.Context) (datastore.Batch, error) {
	return &memBatch{d: d}, nil
}

type memBatch struct {
	mu  sync.Mutex
	d   *Mem
	ops []Op
}

func (b *memBatch) Put(_ context.Context, key datastore.Key, value []byte) error {
	b.mu.Lock()
	b.ops = append(b.ops, Op{Key: key.String(), Val: append([]byte(nil), value...)})
	b.mu.Unlock()
	return nil
}

func (b *memBatch) Delete(_ context.Context, key datastore.Key) error {
	b.mu.Lock()
	b.ops = append(b.ops, Op{Del: true, Key: key.String()})
	b.mu.Unlock()
	return nil
}

func (b *memBatch) Commit(context.Context) error {
	b.mu.Lock()
	ops := b.ops
	b.mu.Unlock()
	if len(ops) == 0 {
		return nil
	}
	err := b.d.commit(ops, true)
	if err == nil {
		b.mu.Lock()
		b.ops = nil
		b.mu.Unlock()
	}
	return err
}

// ---- transactions (context-aware flavour) ----

// TxnMem adds snapshot transactions to Mem.
type TxnMem struct{ *Mem }

func (t TxnMem) NewTransaction(_ context.Context, readOnly bool) (datastore.Txn, error) {
	return &memTxn{d: t.Mem, snap: t.Mem.Snapshot(), ro: readOnly}, nil
}

type memTxn struct {
	mu   sync.Mutex
	d    *Mem
	snap map[string][]byte
	ops  []Op
	ro   bool
}

func (x *memTxn) Get(_ context.Context, key datastore.Key) ([]byte, error) {
	x.d.yield("ds:txnget")
	x.mu.Lock()
	defer x.mu.Unlock()
	if x.d.ReadFail != nil && x.d.ReadFail(key.String()) {
		return nil, ErrInjectedRead
	}
	v, ok := x.snap[key.String()]
	if !ok {
		return nil, datastore.ErrNotFound
	}
	return append([]byte(nil), v...), nil
}

func (x *memTxn) Has(_ context.Context, key datastore.Key) (bool, error) {
	x.mu.Lock()
	defer x.mu.Unlock()
	_, ok := x.snap[key.String()]
	return ok, nil
}

func (x *memTxn) GetSize(ctx context.Context, key datastore.Key) (int, error) {
	v, err := x.Get(ctx, key)
	if err != nil {
		return -1, err
	}
	return len(v), nil
}

func (x *memTxn) Query(_ context.Context, q query.Query) (query.Results, error) {
	x.mu.Lock()
	es := make([]query.Entry, 0, len(x.snap))
	for k, v := range x.snap {
		es = append(es, query.Entry{Key: k, Value: v, Size: len(v)})
	}
	x.mu.Unlock()
	return query.NaiveQueryApply(q, query.ResultsWithEntries(q, es)), nil
}

func (x *memTxn) Put(_ context.Context, key datastore.Key, value []byte) error {
	if x.ro {
		return errors.New("memds: read-only transaction")
	}
	x.mu.Lock()
	defer x.mu.Unlock()
	v := append([]byte(nil), value...)
	x.ops = append(x.ops, Op{Key: key.String(), Val: v})
	x.snap[key.String()] = v
	return nil
}

func (x *memTxn) Delete(_ context.Context, key datastore.Key) error {
	if x.ro {
		return errors.New("memds: read-only transaction")
	}
	x.mu.Lock()
	defer x.mu.Unlock()
	x.ops = append(x.ops, Op{Del: true, Key: key.String()})
	delete(x.snap, key.String())
	return nil
}

func (x *memTxn) Commit(context.Context) error {
	x.mu.Lock()
	ops := x.ops
	x.ops = nil
	x.mu.Unlock()
	if len(ops) == 0 {
		return nil
	}
	return x.d.commit(ops, true)
}

func (x *memTxn) Discard(context.Context) {}

// Wrap returns the datastore.Batching to hand to store.NewStore: the plain flavour (mem
// itself) or the context-aware flavour (contextds over a transactional mem).
func Wrap(mem *Mem, contextAware bool) datastore.Batching {
	if !contextAware {
		return mem
	}
	return contextds.WrapDatastore(TxnMem{mem}).(datastore.Batching)
}
