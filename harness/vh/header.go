// Package vh provides the header type used by every check: a header whose Verify really
// checks lineage, hash links and a trust span, so that an invalid header *is* invalid.
package vh

import (
	"bytes"
	"crypto/sha256"
	"encoding/binary"
	"errors"
	"fmt"
	"sync/atomic"
	"time"

	header "github.com/celestiaorg/go-header"
)

// Epoch is the instant at which every synctest bubble starts (2000-01-01 00:00:00 UTC).
// Scenario times are offsets from it, so scenarios drawn outside a bubble mean the same
// thing inside it.
var Epoch = time.Date(2000, 1, 1, 0, 0, 0, 0, time.UTC)

const (
	FlagBadValidate  = 1 << 0 // Validate() fails
	FlagSoftType     = 1 << 1 // the type's Verify reports every rejection as a soft *header.VerifyError, adjacent or not
	FlagLenientOrder = 1 << 2 // the type's Verify does not look at heights at or below its own (it leaves that to the library)
	// The three flags below model a header type with a crashing code path (nil dereference on
	// attacker-chosen content). They act only while ArmPanics(true) is in force, so that fuzz
	// targets and oracles decoding arbitrary bytes never meet them by accident.
	FlagPanicValidate = 1 << 3 // Validate() panics
	FlagPanicVerify   = 1 << 4 // the type's Verify panics when handed this header as the untrusted one
	FlagPanicDecode   = 1 << 5 // UnmarshalBinary panics after reading the flags
)

var panicsArmed atomic.Bool

// ArmPanics switches the FlagPanic* flags on or off for the whole process.
func ArmPanics(on bool) { panicsArmed.Store(on) }

var (
	ErrLineage  = errors.New("vh: different validator lineage")
	ErrHashLink = errors.New("vh: previous-hash link mismatch")
	ErrSpan     = errors.New("vh: outside trust span")
	ErrValidate = errors.New("vh: stateless validation failed")
	ErrDecode   = errors.New("vh: undecodable header")
	ErrOrder    = errors.New("vh: not above trusted height")
)

var magic = []byte{0xC3, 'v', 'h', 1}

// Header implements header.Header[*Header].
type Header struct {
	Chain   string
	H       uint64
	T       int64 // unix nanoseconds
	Prev    []byte
	Lineage uint32 // 0 = the lineage the light client trusts
	Span    uint64 // how many heights ahead this header verifies non-adjacently
	Salt    uint32
	Flags   uint8

	// VerifyFn, when set on the *trusted* header, replaces the type-level Verify (C01/C02).
	VerifyFn func(u *Header) error `json:"-"`
	// HashFn, when set, replaces Hash (used only for hash-binding checks).
	hash []byte
}

var _ header.Header[*Header] = (*Header)(nil)

func (h *Header) New() *Header    { return new(Header) }
func (h *Header) IsZero() bool    { return h == nil }
func (h *Header) ChainID() string { return h.Chain }
func (h *Header) Height() uint64  { return h.H }
func (h *Header) Time() time.Time { return time.Unix(0, h.T).UTC() }
func (h *Header) LastHeader() header.Hash {
	return header.Hash(h.Prev)
}

func (h *Header) Hash() header.Hash {
	if len(h.hash) != 0 {
		return header.Hash(h.hash)
	}
	b, _ := h.MarshalBinary()
	s := sha256.Sum256(b)
	return header.Hash(s[:])
}

// Seal caches the hash; call after the last field change. Returns h.
func (h *Header) Seal() *Header {
	h.hash = nil
	h.hash = []byte(h.Hash())
	return h
}

func (h *Header) Verify(u *Header) error {
	if h.VerifyFn != nil {
		return h.VerifyFn(u)
	}
	err := TypeVerify(h, u)
	if err != nil && h.Flags&FlagSoftType != 0 {
		return &header.VerifyError{Reason: err, SoftFailure: true}
	}
	return err
}

// TypeVerify is the default type-level verification.
func TypeVerify(d, u *Header) error {
	if u.Flags&FlagPanicVerify != 0 && panicsArmed.Load() {
		panic("vh: Verify crashes on this header")
	}
	if u.H <= d.H {
		if d.Flags&FlagLenientOrder != 0 {
			if u.Lineage != d.Lineage {
				return ErrLineage
			}
			return nil
		}
		return ErrOrder
	}
	if u.Lineage != d.Lineage {
		return ErrLineage
	}
	if u.H == d.H+1 {
		if !bytes.Equal(u.Prev, d.Hash()) {
			return ErrHashLink
		}
		return nil
	}
	if u.H-d.H > d.Span {
		return ErrSpan
	}
	return nil
}

func (h *Header) Validate() error {
	if h.Flags&FlagPanicValidate != 0 && panicsArmed.Load() {
		panic("vh: Validate crashes on this header")
	}
	if h.Flags&FlagBadValidate != 0 {
		return ErrValidate
	}
	return nil
}

func (h *Header) MarshalBinary() ([]byte, error) {
	if len(h.Chain) > 255 || len(h.Prev) > 255 {
		return nil, fmt.Errorf("vh: field too long")
	}
	b := make([]byte, 0, 64+len(h.Chain)+len(h.Prev))
	b = append(b, magic...)
	b = append(b, byte(len(h.Chain)))
	b = append(b, h.Chain...)
	b = binary.BigEndian.AppendUint64(b, h.H)
	b = binary.BigEndian.AppendUint64(b, uint64(h.T))
	b = append(b, byte(len(h.Prev)))
	b = append(b, h.Prev...)
	b = binary.BigEndian.AppendUint32(b, h.Lineage)
	b = binary.BigEndian.AppendUint64(b, h.Span)
	b = binary.BigEndian.AppendUint32(b, h.Salt)
	b = append(b, h.Flags)
	return b, nil
}

func (h *Header) UnmarshalBinary(b []byte) error {
	if len(b) < len(magic)+1 || !bytes.Equal(b[:len(magic)], magic) {
		return ErrDecode
	}
	p := len(magic)
	n := int(b[p])
	p++
	if len(b) < p+n+8+8+1 {
		return ErrDecode
	}
	chain := string(b[p : p+n])
	p += n
	hh := binary.BigEndian.Uint64(b[p:])
	p += 8
	tt := int64(binary.BigEndian.Uint64(b[p:]))
	p += 8
	n = int(b[p])
	p++
	if len(b) != p+n+4+8+4+1 {
		return ErrDecode
	}
	prev := append([]byte(nil), b[p:p+n]...)
	p += n
	lin := binary.BigEndian.Uint32(b[p:])
	p += 4
	span := binary.BigEndian.Uint64(b[p:])
	p += 8
	salt := binary.BigEndian.Uint32(b[p:])
	p += 4
	if b[p]&FlagPanicDecode != 0 && panicsArmed.Load() {
		panic("vh: UnmarshalBinary crashes on these bytes")
	}
	*h = Header{Chain: chain, H: hh, T: tt, Prev: prev, Lineage: lin, Span: span, Salt: salt, Flags: b[p]}
	h.Seal()
	return nil
}

// Clone returns a deep copy (without VerifyFn) with a fresh cached hash.
func (h *Header) Clone() *Header {
	c := *h
	c.Prev = append([]byte(nil), h.Prev...)
	c.VerifyFn = nil
	c.hash = nil
	return c.Seal()
}

func (h *Header) String() string {
	if h == nil {
		return "<nil>"
	}
	return fmt.Sprintf("{%s h=%d t=%+d lin=%d span=%d salt=%d fl=%d %x}", h.Chain, h.H,
		time.Duration(h.T-Epoch.UnixNano()), h.Lineage, h.Span, h.Salt, h.Flags, []byte(h.Hash())[:4])
}

// Equal reports field-and-hash equality.
func Equal(a, b *Header) bool {
	if a == nil || b == nil {
		return a == b
	}
	return bytes.Equal(a.Hash(), b.Hash())
}
