package vh

import "time"

// ChainSpec is the serialisable description of a canonical chain.
type ChainSpec struct {
	ChainID string   `json:"chain_id"`
	N       int      `json:"n"`               // heights 1..N
	StartMs int64    `json:"start_ms"`        // time of header 1 as ms offset from Epoch (may be negative)
	DeltaMs []int64  `json:"delta_ms"`        // per-header time delta, cycled; default 1000
	Spans   []uint64 `json:"spans,omitempty"` // per-header trust span, cycled; default 1<<40
	Salt    uint32   `json:"salt,omitempty"`
	Flags   uint8    `json:"flags,omitempty"` // set on every header of the chain
}

// Chain is a built canonical chain. Headers[i] has height i+1.
type Chain struct {
	Spec    ChainSpec
	Headers []*Header
}

func (s ChainSpec) delta(i int) int64 {
	if len(s.DeltaMs) == 0 {
		return 1000
	}
	return s.DeltaMs[i%len(s.DeltaMs)]
}

func (s ChainSpec) span(i int) uint64 {
	if len(s.Spans) == 0 {
		return 1 << 40
	}
	return s.Spans[i%len(s.Spans)]
}

// Build constructs the chain.
func (s ChainSpec) Build() *Chain {
	c := &Chain{Spec: s}
	c.Extend(s.N)
	return c
}

// Extend grows the chain to n headers.
func (c *Chain) Extend(n int) {
	s := c.Spec
	for i := len(c.Headers); i < n; i++ {
		h := &Header{Chain: s.ChainID, H: uint64(i + 1), Span: s.span(i), Salt: s.Salt, Flags: s.Flags}
		if i == 0 {
			h.T = Epoch.UnixNano() + s.StartMs*int64(time.Millisecond)
			h.Prev = []byte("genesis")
		} else {
			p := c.Headers[i-1]
			h.T = p.T + s.delta(i)*int64(time.Millisecond)
			h.Prev = p.Hash()
		}
		c.Headers = append(c.Headers, h.Seal())
	}
	if n > c.Spec.N {
		c.Spec.N = n
	}
}

// At returns the canonical header at the height (nil if outside).
func (c *Chain) At(h uint64) *Header {
	if h == 0 || h > uint64(len(c.Headers)) {
		return nil
	}
	return c.Headers[h-1]
}

// Range returns canonical headers [from, to).
func (c *Chain) Range(from, to uint64) []*Header {
	if from == 0 {
		from = 1
	}
	if to > uint64(len(c.Headers))+1 {
		to = uint64(len(c.Headers)) + 1
	}
	if from >= to {
		return nil
	}
	out := make([]*Header, 0, to-from)
	for h := from; h < to; h++ {
		out = append(out, c.Headers[h-1])
	}
	return out
}

// Head returns the last header.
func (c *Chain) Head() *Header { return c.Headers[len(c.Headers)-1] }

// IsCanonical reports whether h is hash-equal to the canonical header at its height.
func (c *Chain) IsCanonical(h *Header) bool {
	if h == nil {
		return false
	}
	return Equal(c.At(h.H), h)
}

// Adversarial variants derived from a canonical header.
const (
	AdvForged        = "forged"       // other lineage: can never be verified
	AdvForked        = "forked"       // same lineage, different content (salt) => hash link to/from it breaks
	AdvWrongChain    = "wrong_chain"  // other chain id
	AdvFuture        = "future"       // time far ahead of now
	AdvTimeRegress   = "time_regress" // time before genesis
	AdvBadValidate   = "bad_validate"
	AdvNoChain       = "no_chain"       // empty chain id
	AdvChainPrefix   = "chain_prefix"   // chain id cut short by one character
	AdvPanicValidate = "panic_validate" // only while ArmPanics(true)
	AdvPanicVerify   = "panic_verify"
	AdvPanicDecode   = "panic_decode"
)

// Variant derives an adversarial header from canonical c.
func Variant(c *Header, kind string, salt uint32) *Header {
	v := c.Clone()
	switch kind {
	case AdvForged:
		v.Lineage = 1 + salt%7
		v.Salt = salt
	case AdvForked:
		v.Salt = c.Salt + 1 + salt%1000
		// a forked header that is non-adjacent and within span would pass the type-level check;
		// give it its own lineage marker so that "canonical" is the only verifiable chain.
		v.Lineage = 100 + salt%7
	case AdvWrongChain:
		v.Chain = c.Chain + "-x"
	case AdvNoChain:
		v.Chain = ""
	case AdvChainPrefix:
		if len(c.Chain) > 0 {
			v.Chain = c.Chain[:len(c.Chain)-1]
		}
	case AdvFuture:
		v.T = Epoch.UnixNano() + int64(10*365*24*time.Hour)
	case AdvTimeRegress:
		v.T = Epoch.UnixNano() - int64(20*365*24*time.Hour)
	case AdvBadValidate:
		v.Flags |= FlagBadValidate
	case AdvPanicValidate:
		v.Flags |= FlagPanicValidate
	case AdvPanicVerify:
		v.Flags |= FlagPanicVerify
	case AdvPanicDecode:
		v.Flags |= FlagPanicDecode
	}
	return v.Seal()
}
