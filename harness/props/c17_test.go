package props

import (
	"context"
	"fmt"
	"os"
	"runtime"
	"sync"
	"sync/atomic"
	"testing"
	"testing/synctest"
	"time"

	"github.com/celestiaorg/go-header/store"
	"pgregory.net/rapid"

	"verif/harness/sched"
	"verif/harness/vh"
)

// C17 — Concurrent Store use keeps Head monotone and readers never see torn state.

type C17Scenario struct {
	Cfg         StoreCfg     `json:"cfg"`
	Prefill     int          `json:"prefill"`    // store starts as [1..prefill], flushed
	Writers     [][]C12Chunk `json:"writers"`    // chunks above prefill (off relative to prefill+1)
	SyncAfter   []bool       `json:"sync_after"` // per writer: Sync after each chunk and verify it is readable
	Readers     int          `json:"readers"`
	ReadSteps   int          `json:"read_steps"`
	DeleteK     int          `json:"delete_k"` // 0 = no deleter; else DeleteRange(1, 1+k), k < prefill
	Tape        []int        `json:"tape"`
	Real        bool         `json:"real,omitempty"` // engine B: real threads, no controlled schedule
	Jitter      []int        `json:"jitter,omitempty"`
	DSYield     bool         `json:"ds_yield,omitempty"` // engine A: datastore accesses are yield points too
	DSReadsOnly bool         `json:"ds_reads_only,omitempty"`
	Canonical   bool         `json:"canonical,omitempty"` // parked goroutines ordered by role, not by arrival
}

func genC17(t *rapid.T) C17Scenario {
	s := C17Scenario{
		Cfg:       genStoreCfg(t),
		Prefill:   rapid.IntRange(2, 6).Draw(t, "prefill"),
		Readers:   rapid.IntRange(1, 2).Draw(t, "readers"),
		ReadSteps: rapid.IntRange(2, 8).Draw(t, "readsteps"),
	}
	if s.Cfg.StoreCache == 1 {
		s.Cfg.StoreCache = 2
	}
	if s.Cfg.IndexCache == 1 {
		s.Cfg.IndexCache = 2
	}
	nw := rapid.IntRange(2, 4).Draw(t, "nwriters")
	for i := 0; i < nw; i++ {
		nc := rapid.IntRange(1, 3).Draw(t, "nchunks")
		var w []C12Chunk
		for j := 0; j < nc; j++ {
			w = append(w, C12Chunk{Off: rapid.IntRange(0, 15).Draw(t, "coff"), N: rapid.IntRange(1, 4).Draw(t, "cn")})
		}
		s.Writers = append(s.Writers, w)
		s.SyncAfter = append(s.SyncAfter, rapid.Bool().Draw(t, "syncafter"))
	}
	if rapid.Bool().Draw(t, "deleter") {
		s.DeleteK = min(rapid.SampledFrom([]int{1, 1, 1, 2, 5}).Draw(t, "deletek"), s.Prefill-1)
		if rapid.IntRange(0, 5).Draw(t, "delete_to_head") == 0 {
			// everything that is there when the deleter is started: DeleteRange(Tail, Head+1) racing the appends
			s.DeleteK = s.Prefill
		}
	}
	s.Tape = rapid.SliceOfN(rapid.IntRange(0, 19), 0, 300).Draw(t, "tape")
	s.DSYield = rapid.IntRange(0, 2).Draw(t, "dsyield") > 0
	s.DSReadsOnly = rapid.Bool().Draw(t, "dsreadsonly")
	return s
}

func genC17Real(t *rapid.T) C17Scenario {
	s := genC17(t)
	s.Real = true
	s.Tape = nil
	s.ReadSteps = rapid.IntRange(10, 60).Draw(t, "readsteps_real")
	s.Jitter = rapid.SliceOfN(rapid.IntRange(0, 3), 8, 32).Draw(t, "jitter")
	return s
}

type c17Obs struct {
	Seq    int64  `json:"seq"`
	Reader int    `json:"reader"`
	What   string `json:"what"`
	Value  uint64 `json:"value"`
}

func runC17(t *testing.T, s C17Scenario) (res Result) {
	bubble(t, func() {
		e := newStoreEnv(s.Cfg, storeChainLen)
		ctx, cancel := vctx(24 * time.Hour)
		defer cancel()
		if err := e.open(ctx); err != nil {
			res.failf("opening a fresh store failed: %v", err)
			return
		}
		defer func() {
			c2, cn := vctx(time.Hour)
			_ = e.st.Stop(c2)
			cn()
		}()
		base := uint64(s.Prefill + 1)
		if err := e.st.Append(ctx, e.chain.Range(1, base)...); err != nil {
			res.failf("prefill: %v", err)
			return
		}
		if err := e.st.Sync(ctx); err != nil {
			res.failf("prefill sync: %v", err)
			return
		}
		hs := make([]uint64, 0, s.Prefill)
		for h := uint64(1); h < base; h++ {
			hs = append(hs, h)
		}
		e.m.appendBatch(hs)
		synctest.Wait()

		var sc *sched.Sched
		yield := func(string) {}
		jit := func(i int) {}
		if !s.Real {
			sc = sched.New()
			sc.Canonical = s.Canonical
			store.VerifSetYield(sc.Yield)
			defer store.VerifSetYield(nil)
			if s.DSYield {
				if s.DSReadsOnly {
					e.mem.Yield = func(p string) {
						if p != "ds:write" {
							sc.Yield(p)
						}
					}
				} else {
					e.mem.Yield = sc.Yield
				}
				defer func() { e.mem.Yield = nil }()
			}
			yield = sc.Yield
		} else if len(s.Jitter) > 0 {
			jit = func(i int) {
				for k := 0; k < s.Jitter[i%len(s.Jitter)]; k++ {
					runtime.Gosched()
				}
			}
		}

		var mu sync.Mutex
		var seq atomic.Int64
		var problems []string
		var observations []c17Obs
		problem := func(f string, a ...any) {
			mu.Lock()
			problems = append(problems, fmt.Sprintf(f, a...))
			mu.Unlock()
		}
		record := func(r int, what string, v uint64) {
			mu.Lock()
			observations = append(observations, c17Obs{Seq: seq.Add(1), Reader: r, What: what, Value: v})
			mu.Unlock()
		}
		var wg sync.WaitGroup
		// a deletion that reaches the head at the time of the call may empty the store: Head and Height drop by
		// design and a reader's Head() may be deleted under it, so such scenarios run without readers and are
		// judged on retrievability of what was appended and on the final state
		wipes := s.DeleteK >= s.Prefill
		nReaders := s.Readers
		if wipes {
			nReaders = 0
		}
		total := int32(len(s.Writers) + nReaders)
		if s.DeleteK > 0 {
			total++
		}
		var left atomic.Int32
		left.Store(total)
		spawn := func(f func()) {
			wg.Add(1)
			go func() {
				defer wg.Done()
				defer left.Add(-1)
				f()
			}()
		}

		for wi, w := range s.Writers {
			wi, w := wi, w
			spawn(func() {
				for ci, c := range w {
					yield(fmt.Sprintf("w%d:append%d", wi, ci))
					jit(wi + ci)
					from := base + uint64(c.Off)
					chunk := e.chain.Range(from, from+uint64(c.N))
					if err := e.st.Append(ctx, chunk...); err != nil {
						problem("writer %d: Append failed: %v", wi, err)
						return
					}
					if s.SyncAfter[wi] {
						yield(fmt.Sprintf("w%d:sync%d", wi, ci))
						if err := e.st.Sync(ctx); err != nil {
							problem("writer %d: Sync failed: %v", wi, err)
							return
						}
						// first the lookups that cannot wait: the header has to be there when Sync returns,
						// not a moment later (GetByHeight would wait for a height that is still to come)
						for _, x := range chunk {
							if g2, err := e.st.Get(ctx, x.Hash()); err != nil || !vh.Equal(g2, x) {
								problem("writer %d: header %d is not readable by hash after Append+Sync returned: %v", wi, x.H, err)
							}
							if ok, err := e.st.Has(ctx, x.Hash()); err != nil || !ok {
								problem("writer %d: Has(header %d) = (%v, %v) after Append+Sync returned", wi, x.H, ok, err)
							}
						}
						for _, x := range chunk {
							c1, cn := vctx(time.Second)
							g, err := e.st.GetByHeight(c1, x.H)
							cn()
							if err != nil || !vh.Equal(g, x) {
								problem("writer %d: header %d is not readable by height after Append+Sync returned: %v", wi, x.H, err)
							}
						}
					}
				}
			})
		}
		for r := 0; r < nReaders; r++ {
			r := r
			spawn(func() {
				var lastHead, lastHeight uint64
				for i := 0; i < s.ReadSteps; i++ {
					yield(fmt.Sprintf("r%d:head", r))
					jit(r + i)
					hd, err := e.st.Head(ctx)
					if err != nil {
						problem("reader %d: Head failed: %v", r, err)
						return
					}
					record(r, "head", hd.H)
					if hd.H < lastHead {
						problem("reader %d: Head().Height() decreased from %d to %d", r, lastHead, hd.H)
					}
					lastHead = hd.H
					yield(fmt.Sprintf("r%d:height", r))
					ht := e.st.Height()
					record(r, "height", ht)
					if ht < lastHeight {
						problem("reader %d: Height() decreased from %d to %d", r, lastHeight, ht)
					}
					lastHeight = ht
					yield(fmt.Sprintf("r%d:get", r))
					c1, cn := vctx(time.Second)
					g, err := e.st.GetByHeight(c1, hd.H)
					cn()
					if err != nil || !vh.Equal(g, hd) {
						problem("reader %d: the header returned by Head() (%d) is not retrievable by height: (%v, %v)", r, hd.H, g, err)
					}
					if g2, err := e.st.Get(ctx, hd.Hash()); err != nil || !vh.Equal(g2, hd) {
						problem("reader %d: the header returned by Head() (%d) is not retrievable by hash: %v", r, hd.H, err)
					}
				}
			})
		}
		if s.DeleteK > 0 {
			spawn(func() {
				yield("d:delete")
				if err := e.st.DeleteRange(ctx, 1, 1+uint64(s.DeleteK)); err != nil {
					problem("deleter: tail-side DeleteRange(1,%d) failed: %v", 1+s.DeleteK, err)
				}
			})
		}

		if !s.Real {
			// the controller itself watches Head and Height at every scheduling step (both are plain atomic
			// loads): in the global serial order neither may ever decrease
			var stepHead, stepHeight uint64
			sc.OnStep = func(step int) {
				if wipes {
					return
				}
				if hd, err := e.st.Head(ctx); err == nil {
					if hd.H < stepHead {
						problem("at scheduler step %d Head().Height() went back from %d to %d", step, stepHead, hd.H)
					}
					stepHead = hd.H
				}
				if ht := e.st.Height(); ht < stepHeight {
					problem("at scheduler step %d Height() went back from %d to %d", step, stepHeight, ht)
				} else {
					stepHeight = ht
				}
			}
			finished := sc.Run(s.Tape, func() bool { return left.Load() == 0 }, 5000, 10*time.Millisecond)
			sc.Off()
			if !finished {
				wg.Wait()
				res.failf("HARNESS: schedule did not finish within the step budget")
				return
			}
		}
		wg.Wait()
		fillTrace := func() {
			if sc != nil {
				for _, st := range sc.Trace {
					res.TraceK = append(res.TraceK, st.K)
					res.TraceN = append(res.TraceN, st.N)
				}
			}
		}
		// did the deletion take the whole-store path (it removes the head pointer key)?
		wipeTaken := false
		for _, en := range e.mem.Log() {
			for _, op := range en.Ops {
				if op.Del && op.Key == storePrefix+"/head" {
					wipeTaken = true
				}
			}
		}
		panicked := func() bool {
			ps := takeStorePanics()
			if len(ps) == 0 {
				return false
			}
			if wipes && wipeTaken {
				res.Known = "C17/wipe-races-flush"
			}
			fillTrace()
			res.label("flush_loop_panicked")
			res.failf("the store's flush loop panicked: %s", ps[0])
			return true
		}
		if panicked() {
			return
		}
		err := e.st.Sync(ctx)
		synctest.Wait()
		if panicked() {
			return
		}
		if err != nil {
			res.failf("final Sync: %v", err)
			return
		}

		// global order (engine A): Head and Height never decrease across all readers
		if !s.Real {
			var gh, gt uint64
			for _, o := range observations {
				switch o.What {
				case "head":
					if o.Value < gh {
						problem("in the global serial order Head().Height() decreased from %d to %d (reader %d)", gh, o.Value, o.Reader)
					}
					gh = o.Value
				case "height":
					if o.Value < gt {
						problem("in the global serial order Height() decreased from %d to %d (reader %d)", gt, o.Value, o.Reader)
					}
					gt = o.Value
				}
			}
		}

		// final state equals the sequential execution of the same appends (+ the deletion)
		for _, w := range s.Writers {
			for _, c := range w {
				var hh []uint64
				for h := base + uint64(c.Off); h < base+uint64(c.Off)+uint64(c.N); h++ {
					hh = append(hh, h)
				}
				e.m.appendBatch(hh)
			}
		}
		if s.DeleteK > 0 && !wipes {
			e.m.deleteRange(1, 1+uint64(s.DeleteK))
		}
		if len(problems) == 0 {
			if wipes {
				// the outcome depends on whether the first append came before or after the deletion; in every
				// serial order the chain is gap-free, nothing at or below the deleted heights is left, and
				// every appended header is stored
				if v := c17CheckAfterDeleteToHead(e, s, base); v != "" {
					problems = append(problems, v)
				}
			} else if v := e.checkStore("after all writers finished"); v != "" {
				problems = append(problems, v)
			}
		}
		if len(problems) > 0 && wipes && wipeTaken {
			res.Known = "C17/wipe-races-flush"
		}
		if wipes {
			res.label("delete_reaches_head", fmt.Sprintf("wipe_path_taken=%v", wipeTaken))
		}
		fillTrace()
		// non-triviality from the trace
		overlap := false
		if sc != nil {
			inFlush := false
			for _, st := range sc.Trace {
				if len(st.Point) > 6 && st.Point[:6] == "flush:" {
					inFlush = st.Point != "flush:committed" && st.Point != "flush:advanced" || inFlush
				}
				isReader := len(st.Point) > 1 && st.Point[0] == 'r'
				if isReader {
					for _, o := range st.Others {
						if len(o) > 6 && o[:6] == "flush:" {
							overlap = true
						}
					}
				}
				if st.Point == "d:delete" || st.Point == "delete:synced" {
					for _, o := range st.Others {
						if len(o) > 1 && (o[0] == 'w' || o[:2] == "fl") {
							overlap = true
						}
					}
				}
			}
			res.NonTrivial = overlap
			if overlap {
				res.label("reader_or_delete_overlaps_flush")
			}
		} else {
			res.NonTrivial = true
			res.label("real_threads")
		}
		if s.DeleteK > 0 {
			res.label("with_deleter")
		}
		if len(problems) > 0 {
			res.failf("%s", problems[0])
			tr := ""
			if sc != nil {
				tr = fmt.Sprint(sc.Trace)
			}
			res.Obs = map[string]any{"problems": problems, "observations": observations, "trace": tr}
		}
	})
	return res
}

// c17CheckAfterDeleteToHead judges the final store of a scenario whose deletion reached the head.
func c17CheckAfterDeleteToHead(e *storeEnv, s C17Scenario, base uint64) string {
	ctx, cancel := vctx(time.Hour)
	defer cancel()
	head, herr := e.st.Head(ctx)
	tail, terr := e.st.Tail(ctx)
	if herr != nil || terr != nil {
		return fmt.Sprintf("after all writers finished: Head=(%v,%v) Tail=(%v,%v) although headers were appended after/while the store was emptied", head, herr, tail, terr)
	}
	if !e.chain.IsCanonical(head) || !e.chain.IsCanonical(tail) || tail.H > head.H || tail.H < base {
		return fmt.Sprintf("after all writers finished: Head=%v Tail=%v (deleted up to %d)", head, tail, base-1)
	}
	if e.st.Height() != head.H {
		return fmt.Sprintf("after all writers finished: Height()=%d, Head().Height()=%d", e.st.Height(), head.H)
	}
	for h := tail.H; h <= head.H; h++ {
		g, err := e.st.GetByHeight(ctx, h)
		if err != nil || !vh.Equal(g, e.chain.At(h)) {
			return fmt.Sprintf("after all writers finished: height %d inside [Tail %d, Head %d] is not retrievable: (%v, %v)", h, tail.H, head.H, g, err)
		}
		if g2, err := e.st.Get(ctx, g.Hash()); err != nil || !vh.Equal(g2, g) {
			return fmt.Sprintf("after all writers finished: header %d is not retrievable by hash: %v", h, err)
		}
	}
	for h := uint64(1); h < base; h++ {
		if g, err := e.st.Get(ctx, e.chain.At(h).Hash()); err == nil {
			return fmt.Sprintf("after all writers finished: deleted header %v is still retrievable by hash", g)
		}
	}
	appended := map[uint64]bool{}
	for _, w := range s.Writers {
		for _, c := range w {
			for h := base + uint64(c.Off); h < base+uint64(c.Off)+uint64(c.N); h++ {
				appended[h] = true
			}
		}
	}
	for h := range appended {
		if g, err := e.st.Get(ctx, e.chain.At(h).Hash()); err != nil || !vh.Equal(g, e.chain.At(h)) {
			return fmt.Sprintf("after all writers finished: appended header %d is not stored: %v", h, err)
		}
	}
	// appended heights contiguous from the first one above the deleted prefix: the head is the last of them
	top := base
	for appended[top] {
		top++
	}
	if appended[base] && len(appended) == int(top-base) && (head.H != top-1 || tail.H != base) {
		return fmt.Sprintf("after all writers finished: the appended heights %d..%d are contiguous but Tail=%d Head=%d", base, top-1, tail.H, head.H)
	}
	return ""
}

func TestC17(t *testing.T)       { check(t, "C17", genC17, runC17) }
func TestC17Replay(t *testing.T) { replay(t, "C17", runC17) }

// TestC17Real is engine B: the same task mix on real goroutines (run it with the -race binary and
// GOMAXPROCS=16); each generated scenario is repeated several times.
func TestC17Real(t *testing.T) {
	reps := envInt("VERIF_C17_REPS", 5)
	check(t, "C17", genC17Real, func(t *testing.T, s C17Scenario) Result {
		var last Result
		for i := 0; i < reps; i++ {
			last = runC17(t, s)
			if last.Verdict != "" {
				return last
			}
		}
		return last
	})
	_ = context.Background
	_ = os.Getenv
}

// ---- bounded-exhaustive schedule enumeration for one tiny configuration ----

// enumerateSchedules runs exec for every schedule (depth-first, stateless: each schedule is re-executed
// from scratch). exec gets a tape prefix (defaults to choice 0 afterwards) and returns the choices made and
// the number of alternatives at each step. Returns the number of schedules run and whether the space was
// exhausted within maxRuns. mine selects the subtrees (by their first choices) this shard is responsible for.
func enumerateSchedules(exec func(tape []int) (ks, ns []int, stop bool), maxRuns int, depth int, mine func(prefix []int) bool) (runs int, exhausted bool, nondet bool) {
	tape := []int{}
	for runs < maxRuns {
		ks, ns, stop := exec(tape)
		runs++
		if stop {
			return runs, false, false
		}
		for i := range tape {
			if i >= len(ks) || ks[i] != tape[i] {
				nondet = true // the same prefix did not lead to the same choices; go on from what was executed
				break
			}
		}
		// next schedule: the deepest step with an untried alternative. Inside a subtree (first `depth`
		// choices) that belongs to another shard only the top levels are advanced.
		// (the subtree is identified by the first `depth` choices made at steps that had an alternative;
		// steps with a single runnable goroutine do not split the tree)
		lim := len(ks) - 1
		if mine != nil {
			var key []int
			last := -1
			for j := range ks {
				if ns[j] > 1 {
					key = append(key, ks[j])
					last = j
					if len(key) == depth {
						break
					}
				}
			}
			if len(key) == depth && !mine(key) {
				lim = last
			}
		}
		i := lim
		for i >= 0 && ks[i]+1 >= ns[i] {
			i--
		}
		if i < 0 {
			return runs, true, nondet
		}
		tape = append(append([]int{}, ks[:i]...), ks[i]+1)
	}
	return runs, false, nondet
}

// c17EnumConfigs are the tiny configurations whose schedules are enumerated completely (datastore reads
// and the store's own yield points are the scheduling points, parked goroutines are ordered by role).
//
//	0: store [1,2]; write batch 4 (appended headers stay pending); writers Append(3), Append(4); DeleteRange(1,2)
//	1: as 0 with write batch 1 (every append is written out by the flush loop)
//	2: store [1,2]; batch 4; one writer Append(3,4); one reader (1 round of Head, Height, GetByHeight); DeleteRange(1,2)
//	3: store [1,2,3]; batch 2; one writer Append(4,5) + Sync + read-back; DeleteRange(1,3)
//	4: store [1,2]; batch 4; writers Append(3), Append(3..4) (overlap); no deleter; one reader (1 round)
//	5: as 0 but DeleteRange(1,3): the deletion reaches the head of the time of the call (whole-store path or, when
//	   header 3 has arrived, tail-side path)
//	6: store [1,2]; batch 4; one writer Append(3) then Append(4); another Append(5) followed by Sync and a read-back
var c17EnumConfigs = []C17Scenario{
	{Cfg: StoreCfg{Batch: 4, StoreCache: 8, IndexCache: 8}, Prefill: 2,
		Writers: [][]C12Chunk{{{Off: 0, N: 1}}, {{Off: 1, N: 1}}}, SyncAfter: []bool{false, false}, DeleteK: 1},
	{Cfg: StoreCfg{Batch: 1, StoreCache: 8, IndexCache: 8}, Prefill: 2,
		Writers: [][]C12Chunk{{{Off: 0, N: 1}}, {{Off: 1, N: 1}}}, SyncAfter: []bool{false, false}, DeleteK: 1},
	{Cfg: StoreCfg{Batch: 4, StoreCache: 8, IndexCache: 8}, Prefill: 2,
		Writers: [][]C12Chunk{{{Off: 0, N: 2}}}, SyncAfter: []bool{false}, Readers: 1, ReadSteps: 1, DeleteK: 1},
	{Cfg: StoreCfg{Batch: 2, StoreCache: 8, IndexCache: 8}, Prefill: 3,
		Writers: [][]C12Chunk{{{Off: 0, N: 2}}}, SyncAfter: []bool{true}, DeleteK: 2},
	{Cfg: StoreCfg{Batch: 4, StoreCache: 8, IndexCache: 8}, Prefill: 2,
		Writers: [][]C12Chunk{{{Off: 0, N: 1}}, {{Off: 0, N: 2}}}, SyncAfter: []bool{false, false}, Readers: 1, ReadSteps: 1},
	{Cfg: StoreCfg{Batch: 4, StoreCache: 8, IndexCache: 8}, Prefill: 2,
		Writers: [][]C12Chunk{{{Off: 0, N: 1}}, {{Off: 1, N: 1}}}, SyncAfter: []bool{false, false}, DeleteK: 2},
	{Cfg: StoreCfg{Batch: 4, StoreCache: 8, IndexCache: 8}, Prefill: 2,
		Writers: [][]C12Chunk{{{Off: 0, N: 1}, {Off: 1, N: 1}}, {{Off: 2, N: 1}}}, SyncAfter: []bool{false, true}},
}

// runEnum enumerates every schedule of each configuration (stateless DFS, sharded by the first choices).
// The quick tier takes the configurations listed in quickCfgs, the thorough tier all of them.
func runEnum[S any](t *testing.T, prop string, configs []S, withTape func(S, []int) S, run func(*testing.T, S) Result, quickCfgs map[int]bool) {
	col := evidFor(prop)
	maxRuns := envInt("VERIF_ENUM_MAX", 40000)
	shard, shards := envInt("VERIF_SHARD_INDEX", 0), envInt("VERIF_SHARDS", 1)
	mine := func(prefix []int) bool {
		h := uint64(1469598103934665603)
		for _, c := range prefix {
			h = (h ^ uint64(c+1)) * 1099511628211
		}
		h ^= h >> 29
		return int(h%uint64(shards)) == shard
	}
	only := envInt("VERIF_ENUM_CFG", -1)
	for cfg := range configs {
		if only >= 0 && cfg != only {
			continue
		}
		if only < 0 && tier() != "thorough" && !quickCfgs[cfg] {
			continue
		}
		var longest int
		knownVerdicts := map[string]int{}
		runs, exhausted, nondet := enumerateSchedules(func(tape []int) ([]int, []int, bool) {
			s := withTape(configs[cfg], tape)
			res := run(t, s)
			col.Case(s, res.NonTrivial, nil, append([]string{"enumerated_schedule"}, res.Labels...)...)
			if len(res.TraceK) > longest {
				longest = len(res.TraceK)
			}
			if res.Verdict != "" && res.Known != "" && knownOpen(prop, res.Known) {
				col.Known(res.Known)
				knownVerdicts[res.Verdict]++
				return res.TraceK, res.TraceN, false
			}
			if res.Verdict != "" {
				p := evidWriteReplay(prop, s, res.Verdict)
				t.Fatalf("%s violated: %s\nconfiguration %d, schedule: %v\nreplay: %s", prop, res.Verdict, cfg, res.TraceK, p)
			}
			return res.TraceK, res.TraceN, false
		}, maxRuns, 8, mine)
		col.AddExtra(fmt.Sprintf("enum_cfg%d_schedules", cfg), int64(runs))
		col.AddExtra("enumerated_schedules", int64(runs))
		if exhausted {
			col.AddExtra(fmt.Sprintf("enum_cfg%d_shards_exhausted", cfg), 1)
		}
		if nondet {
			col.AddExtra(fmt.Sprintf("enum_cfg%d_nondeterministic", cfg), 1)
		}
		t.Logf("%s enumeration cfg %d: %d schedules, exhausted=%v, nondeterministic=%v, longest=%d steps", prop, cfg, runs, exhausted, nondet, longest)
		for v, n := range knownVerdicts {
			t.Logf("  known finding, %d schedules: %s", n, v)
		}
	}
}

func TestC17Enum(t *testing.T) {
	runEnum(t, "C17", c17EnumConfigs, func(s C17Scenario, tape []int) C17Scenario {
		s.Tape, s.DSYield, s.DSReadsOnly, s.Canonical = tape, true, true, true
		return s
	}, runC17, map[int]bool{0: true, 4: true, 5: true})
}
