package props

import (
	"fmt"
	"testing"
	"testing/synctest"
	"time"

	"github.com/celestiaorg/go-header/store"
	"pgregory.net/rapid"

	"verif/harness/evid"
	"verif/harness/vh"
)

// C04 — Store is a gap-free chain Tail..Head with consistent height and hash lookups.

type StoreOp struct {
	Op   string `json:"op"`
	N    int    `json:"n,omitempty"`
	G    int    `json:"g,omitempty"`
	Desc bool   `json:"desc,omitempty"`
}

type C04Scenario struct {
	Cfg      StoreCfg  `json:"cfg"`
	Base     uint64    `json:"base"`
	Ops      []StoreOp `json:"ops"`
	Parallel bool      `json:"parallel,omitempty"` // parallel-delete threshold lowered to 2
	// Fork, when set, selects the roll-back engine (c04fork_test.go); Ops and Base are unused then.
	Fork *C04ForkScenario `json:"fork,omitempty"`
}

const storeChainLen = 420

var c04OpKinds = []string{
	"append_next", "append_next", "append_next", "append_gap", "append_fill", "append_fill", "append_below", "append_repeat", "append_empty",
	"sync", "settle", "settle", "delete_prefix", "delete_suffix", "delete_whole", "restart_new", "restart_stopstart", "range",
}

func genStoreOp(t *rapid.T, kinds []string) StoreOp {
	return StoreOp{
		Op:   rapid.SampledFrom(kinds).Draw(t, "op"),
		N:    rapid.IntRange(1, 10).Draw(t, "n"),
		G:    rapid.IntRange(0, 6).Draw(t, "g"),
		Desc: rapid.IntRange(0, 4).Draw(t, "desc") == 0,
	}
}

func genC04(t *rapid.T) C04Scenario {
	s := C04Scenario{Cfg: genStoreCfg(t), Base: rapid.SampledFrom([]uint64{1, 1, 2, 30}).Draw(t, "base"),
		Parallel: rapid.IntRange(0, 3).Draw(t, "parallel") == 0}
	n := rapid.IntRange(5, 40).Draw(t, "nops")
	for i := 0; i < n; i++ {
		s.Ops = append(s.Ops, genStoreOp(t, c04OpKinds))
	}
	return s
}

// resolveAppend turns a relative append into concrete heights (nil = not applicable now).
func resolveAppend(m *storeModel, op StoreOp, base uint64) []uint64 {
	var from, to uint64 // [from,to]
	n := uint64(op.N)
	switch op.Op {
	case "append_next":
		if !m.has {
			from = base
		} else {
			from = m.H + 1
		}
		to = from + n - 1
	case "append_gap":
		if !m.has {
			from = base + uint64(op.G)
		} else {
			top := m.maxStored()
			if m.H > top {
				top = m.H
			}
			from = top + 2 + uint64(op.G)
		}
		to = from + n - 1
	case "append_fill":
		if !m.has {
			from = base
		} else {
			from = m.H + 1
		}
		to = from + n - 1
	case "append_below":
		if !m.has || m.T <= 1 {
			return nil
		}
		g := uint64(op.G)
		if g >= m.T-1 {
			g = 0
		}
		to = m.T - 1 - g
		if to < n {
			from = 1
		} else {
			from = to - n + 1
		}
	case "append_repeat":
		if !m.has {
			return nil
		}
		from = m.T + uint64(op.G)%(m.H-m.T+1)
		to = from + n - 1
		if to > m.H {
			to = m.H
		}
	default:
		return nil
	}
	if to > storeChainLen-2 || from < 1 || from > to {
		return nil
	}
	hs := make([]uint64, 0, to-from+1)
	for h := from; h <= to; h++ {
		hs = append(hs, h)
	}
	return hs
}

// resolveDelete turns a relative delete into (from,to); ok=false when not applicable.
func resolveDelete(m *storeModel, op StoreOp, base uint64) (from, to uint64) {
	if !m.has {
		return base, base + 1 // on an empty store every range must be rejected
	}
	ln := m.H - m.T + 1
	switch op.Op {
	case "delete_prefix":
		k := uint64(1)
		if ln > 1 {
			k = 1 + uint64(op.N)%(ln-1)
		}
		return m.T, m.T + k
	case "delete_suffix":
		k := uint64(1)
		if ln > 1 {
			k = 1 + uint64(op.N)%(ln-1)
		}
		return m.H + 1 - k, m.H + 1
	default: // delete_whole
		return m.T, m.H + 1
	}
}

func reverse(hs []uint64) {
	for i, j := 0, len(hs)-1; i < j; i, j = i+1, j-1 {
		hs[i], hs[j] = hs[j], hs[i]
	}
}

func runC04(t *testing.T, s C04Scenario) (res Result) {
	if s.Fork != nil {
		return runC04Fork(t, s)
	}
	col := evid.For("C04")
	bubble(t, func() {
		e := newStoreEnv(s.Cfg, storeChainLen)
		ctx, cancel := vctx(24 * time.Hour)
		defer cancel()
		if err := e.open(ctx); err != nil {
			if e.rejected != nil {
				col.Exclude("configuration rejected by constructor")
				res.label("rejected_config")
				return
			}
			res.failf("opening a fresh store failed: %v", err)
			return
		}
		defer func() {
			if e.st != nil {
				c2, cn := vctx(time.Hour)
				_ = e.st.Stop(c2)
				cn()
			}
		}()
		if s.Parallel {
			old := store.VerifSetDeleteParallelThreshold(2)
			defer store.VerifSetDeleteParallelThreshold(old)
			res.label("parallel_delete_path")
		}

		var gapMade, gapFilled, restartUnflushed, sinceSync bool
		fail := func(f string, a ...any) bool { res.failf(f, a...); return true }
		// settleCheck waits until the flush loop is idle (every queued Append has been taken into the
		// write batch) and compares the store with the model; realSync additionally calls Sync first.
		settleCheck := func(tag string, realSync bool) bool {
			if realSync {
				if err := e.st.Sync(ctx); err != nil {
					return fail("%s: Sync failed: %v", tag, err)
				}
				sinceSync = false
			}
			synctest.Wait()
			if v := e.checkStore(tag); v != "" {
				return fail("%s", v)
			}
			return false
		}
		syncCheck := func(tag string) bool { return settleCheck(tag, false) }

		for i, op := range s.Ops {
			tag := fmt.Sprintf("op#%d %s", i, op.Op)
			switch op.Op {
			case "append_next", "append_gap", "append_fill", "append_below", "append_repeat":
				hs := resolveAppend(e.m, op, s.Base)
				if hs == nil {
					continue
				}
				if op.Desc && len(hs) > 1 {
					if !e.m.has {
						col.Exclude("unordered first batch into an empty store (ensureInit precondition)")
					} else {
						reverse(hs)
					}
				}
				batch := make([]*vh.Header, len(hs))
				for j, h := range hs {
					batch[j] = e.chain.At(h)
				}
				hadGap := e.m.has && e.m.maxStored() > e.m.H
				if err := e.st.Append(ctx, batch...); err != nil {
					fail("%s: Append failed: %v", tag, err)
					return
				}
				oldH := e.m.H
				e.m.appendBatch(hs)
				sinceSync = true
				if e.m.has && e.m.maxStored() > e.m.H {
					gapMade = true
				}
				if hadGap && e.m.H > oldH && e.m.stored[oldH+1] && e.m.H > oldH+uint64(len(hs)) {
					gapFilled = true
				}
			case "append_empty":
				// an Append without headers (callers forward whatever a peer returned) is a no-op
				if err := e.st.Append(ctx); err != nil {
					fail("%s: Append without headers failed: %v", tag, err)
					return
				}
			case "sync":
				if settleCheck(tag, true) {
					return
				}
			case "settle":
				if settleCheck(tag, false) {
					return
				}
			case "delete_prefix", "delete_suffix", "delete_whole":
				from, to := resolveDelete(e.m, op, s.Base)
				valid, _ := e.m.deleteValid(from, to)
				err := e.st.DeleteRange(ctx, from, to)
				if valid && err != nil {
					fail("%s: DeleteRange(%d,%d) failed: %v; model %v", tag, from, to, err, e.m)
					return
				}
				if !valid && err == nil {
					fail("%s: DeleteRange(%d,%d) accepted an invalid range; model %v", tag, from, to, e.m)
					return
				}
				if valid {
					e.m.deleteRange(from, to)
				}
				if syncCheck(tag) {
					return
				}
			case "restart_new", "restart_stopstart":
				if sinceSync {
					restartUnflushed = true
				}
				c2, cn := vctx(time.Hour)
				err := e.st.Stop(c2)
				cn()
				if err != nil {
					fail("%s: Stop failed: %v", tag, err)
					return
				}
				if op.Op == "restart_new" {
					e.st = nil
					if err := e.open(ctx); err != nil {
						fail("%s: reopening failed: %v", tag, err)
						return
					}
				} else if err := startScoped(e.st.Start); err != nil {
					fail("%s: Start after Stop failed: %v", tag, err)
					return
				}
				if syncCheck(tag) {
					return
				}
			case "range":
				synctest.Wait()
				lo := e.m.minStored()
				if lo == 0 {
					lo = s.Base
				}
				from := lo + uint64(op.G)
				if op.G == 6 && lo > 1 {
					from = lo - 1
				}
				if v := e.checkRange(from, from+uint64(op.N), tag); v != "" {
					fail("%s", v)
					return
				}
			}
		}
		if settleCheck("final (settled)", false) || settleCheck("final (synced)", true) {
			return
		}
		if e.m.has {
			if v := e.checkRange(e.m.T, e.m.H+1, "final full range"); v != "" && e.m.H-e.m.T < 200 {
				fail("%s", v)
				return
			}
		}
		res.NonTrivial = (gapMade && gapFilled) || restartUnflushed || s.Cfg.Batch == 1 || s.Cfg.StoreCache == 2
		if gapMade && gapFilled {
			res.label("gap_created_then_filled")
		}
		if restartUnflushed {
			res.label("restart_with_unflushed_headers")
		}
		if s.Cfg.CtxAware {
			res.label("ctx_aware_datastore")
		}
		res.label(fmt.Sprintf("batch=%d", s.Cfg.Batch))
	})
	return res
}

func TestC04(t *testing.T)       { check(t, "C04", genC04, runC04) }
func TestC04Replay(t *testing.T) { replay(t, "C04", runC04) }
