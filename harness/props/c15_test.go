package props

import (
	"context"
	"fmt"
	"math/bits"
	"sync"
	"testing"
	"testing/synctest"
	"time"

	header "github.com/celestiaorg/go-header"
	hsync "github.com/celestiaorg/go-header/sync"
	"pgregory.net/rapid"

	"verif/harness/vh"
)

// C15 — Bifurcation accepts a soft-failing head iff a verifiable path exists; terminates.

type C15Scenario struct {
	S         int    `json:"s"`          // subjective head height (store holds 1..s)
	D         int    `json:"d"`          // candidate at s+d
	SpanShape string `json:"span_shape"` // zero | const | random | decreasing | wall
	SpanK     int    `json:"span_k"`
	SpanSeed  []int  `json:"span_seed,omitempty"`
	Candidate string `json:"candidate"`           // canonical | forged | future | time_regress
	Getter    string `json:"getter"`              // honest | fail_at | forged_at
	J         int    `json:"j"`                   // index of the failing GetByHeight / relative height of the forged intermediate
	Via       string `json:"via"`                 // gossip | head
	SoftType  bool   `json:"soft_type,omitempty"` // the header type reports every rejection as soft, also for adjacent headers
	Joiner    bool   `json:"joiner,omitempty"`    // via head: a second Head() caller arrives while the request is in flight
}

func genC15(maxD int) func(t *rapid.T) C15Scenario {
	return func(t *rapid.T) C15Scenario {
		s := C15Scenario{
			S:         rapid.SampledFrom([]int{1, 2, 10, 50}).Draw(t, "s"),
			SpanShape: rapid.SampledFrom([]string{"zero", "const", "const", "random", "decreasing", "wall"}).Draw(t, "shape"),
			SpanK:     rapid.SampledFrom([]int{1, 2, 3, 7, 20, 100}).Draw(t, "spank"),
			Candidate: rapid.SampledFrom([]string{"canonical", "canonical", "canonical", "forged", "forged", "future", "time_regress"}).Draw(t, "cand"),
			Getter:    rapid.SampledFrom([]string{"honest", "honest", "honest", "fail_at", "forged_at"}).Draw(t, "getter"),
			J:         rapid.IntRange(0, 40).Draw(t, "j"),
			Via:       rapid.SampledFrom([]string{"gossip", "gossip", "head"}).Draw(t, "via"),
			SoftType:  rapid.IntRange(0, 3).Draw(t, "softtype") == 0,
			Joiner:    rapid.Bool().Draw(t, "joiner"),
		}
		switch rapid.IntRange(0, 5).Draw(t, "dclass") {
		case 0:
			s.D = rapid.IntRange(1, 4).Draw(t, "dsmall")
		case 1:
			s.D = rapid.IntRange(maxD/2, maxD).Draw(t, "dbig")
		default:
			s.D = rapid.IntRange(2, min(maxD, 120)).Draw(t, "d")
		}
		if s.SpanShape == "random" {
			s.SpanSeed = rapid.SliceOfN(rapid.IntRange(0, 12), 4, 16).Draw(t, "spanseed")
		}
		if s.Via == "head" && s.Candidate != "canonical" && s.Candidate != "forged" {
			s.Candidate = "canonical"
		}
		return s
	}
}

func c15Spans(s C15Scenario, n int) []uint64 {
	sp := make([]uint64, n)
	for i := range sp {
		switch s.SpanShape {
		case "zero":
			sp[i] = 0
		case "const":
			sp[i] = uint64(s.SpanK)
		case "random":
			sp[i] = uint64(s.SpanSeed[i%len(s.SpanSeed)])
		case "decreasing":
			if i < s.S+s.D {
				sp[i] = uint64((s.S + s.D - i) / 3)
			}
		case "wall":
			sp[i] = 1 << 30
			if i == s.S-1+s.D/2 || i == s.S-1 { // the subjective head and a header in the middle see nothing ahead
				sp[i] = 0
			}
		}
	}
	return sp
}

func runC15(t *testing.T, s C15Scenario) (res Result) {
	bubble(t, func() {
		delta := time.Second
		tip := uint64(s.S + s.D)
		n := int(tip) + 5
		var flags uint8
		if s.SoftType {
			flags = vh.FlagSoftType
		}
		chain := newSyncChain("c15", n, tip, delta, c15Spans(s, n), flags)
		e, err := newSyncEnv(chain, uint64(s.S), delta, nil,
			hsync.WithBlockTime(delta), hsync.WithTrustingPeriod(100_000*time.Hour),
			hsync.WithSyncFromHeight(1), hsync.WithPruningWindow(100_000*time.Hour), hsync.WithRecencyThreshold(time.Millisecond))
		if err != nil {
			res.failf("HARNESS: %v", err)
			return
		}
		defer e.stop()
		ctx, cancel := vctx(1000 * time.Hour)
		defer cancel()
		if err := e.st.Append(ctx, chain.Range(1, uint64(s.S)+1)...); err != nil {
			res.failf("HARNESS: prefill: %v", err)
			return
		}
		_ = e.st.Sync(ctx)
		// start with a getter that reports the stored head, so that Start changes nothing
		e.getter.SetTip(uint64(s.S))
		if err := e.startSyncer(ctx); err != nil {
			res.failf("HARNESS: Syncer.Start: %v", err)
			return
		}
		if !e.quiesce(200) {
			res.failf("HARNESS: no quiescence after Start")
			return
		}
		// now the network is d ahead
		e.getter.SetTip(tip)
		cand := chain.At(tip)
		switch s.Candidate {
		case "forged":
			cand = vh.Variant(cand, vh.AdvForged, 5)
			cand.T = chain.At(tip).T
			cand.Seal()
		case "future":
			cand = vh.Variant(cand, vh.AdvFuture, 5)
		case "time_regress":
			cand = vh.Variant(cand, vh.AdvTimeRegress, 5)
		}
		canonical := chain.IsCanonical(cand)
		subj := chain.At(uint64(s.S))
		// judged by the reference model of Verify, not by header.Verify itself
		directOK, soft := modelVerify(subj, cand)
		direct := fmt.Sprintf("ok=%v soft=%v", directOK, soft)

		forgedAt := uint64(0)
		switch s.Getter {
		case "fail_at":
			e.getter.set(func() { e.getter.ByHeightFail, e.getter.byHeightSeen = s.J, 0 })
		case "forged_at":
			if s.D >= 2 {
				forgedAt = uint64(s.S) + 1 + uint64(s.J)%uint64(s.D-1)
				e.getter.set(func() { e.getter.ForgedAt = forgedAt })
			}
		}
		dd := uint64(s.D)
		budget := int(dd)*(bits.Len64(dd)+2) + 8
		if s.Via == "head" && s.Joiner {
			budget *= 2
		}
		e.getter.set(func() {
			e.getter.MaxByHeight = budget
			if s.Getter != "fail_at" {
				e.getter.byHeightSeen = 0
			}
		})
		callsBefore := len(e.getter.Calls())
		t0 := time.Now()
		var verr error
		var headRet *vh.Header
		if s.Via == "gossip" {
			gctx, gcancel := context.WithTimeout(ctx, time.Hour)
			verr = e.sub.deliver(gctx, cand)
			gcancel()
		} else {
			// through Head(): the getter's head soft-fails against the (stale) subjective head
			if s.Candidate == "forged" {
				e.getter.set(func() { e.getter.HeadMode, e.getter.ExpiredHdr = "expired", cand }) // "expired" mode = hand out ExpiredHdr
			}
			if s.Joiner {
				// the head request takes a moment; a second caller joins it and must get the same treatment
				// (header together with its soft error, hence bifurcation), not the bare header
				e.getter.set(func() { e.getter.HeadDelay = 50 * time.Millisecond })
				var jwg sync.WaitGroup
				var jRet *vh.Header
				var jErr error
				jwg.Add(2)
				go func() {
					defer jwg.Done()
					headRet, verr = e.syncer.Head(ctx)
				}()
				synctest.Wait()
				go func() {
					defer jwg.Done()
					jRet, jErr = e.syncer.Head(ctx)
				}()
				jwg.Wait()
				e.getter.set(func() { e.getter.HeadDelay = 0 })
				if jErr == nil && (jRet == nil || !chain.IsCanonical(jRet)) {
					res.failf("the Head() caller that joined the in-flight request got %v, which is not a header of the chain", jRet)
					return
				}
			} else {
				headRet, verr = e.syncer.Head(ctx)
			}
		}
		elapsed := time.Since(t0)
		calls := e.getter.Calls()[callsBefore:]
		nByHeight := 0
		failedSeen := false
		// with a joining Head() caller there are two searches, one after the other: the second one starts
		// after the first one's getter failure and the request bound applies to each
		twoSearches := s.Via == "head" && s.Joiner
		for _, c := range calls {
			if c.Method != "GetByHeight" {
				continue
			}
			if failedSeen && !twoSearches {
				res.failf("bifurcation went on requesting intermediates (GetByHeight(%d)) after the getter had failed", c.A)
				return
			}
			nByHeight++
			if c.Err != "" && c.Err != header.ErrNotFound.Error() {
				failedSeen = true
			}
			// heights strictly between the two ends are the useful probes. When even subjective+1 is rejected
			// softly the search halves its way down to the subjective height itself and gives up on the
			// ErrKnownHeader that probe yields: wasteful, but it terminates and refuses, so it is tolerated.
			if c.A < uint64(s.S) || c.A >= tip+1 {
				res.failf("bifurcation asked for height %d outside [subjective %d, candidate %d]", c.A, s.S, tip)
				return
			}
			if c.A == uint64(s.S) {
				res.label("self_probe")
			}
		}
		d := uint64(s.D)
		bound := int(d) * (bits.Len64(d) + 2)
		if twoSearches {
			bound *= 2
		}
		rounds := 0
		if soft {
			rounds = nByHeight
		}
		res.NonTrivial = soft && nByHeight >= 2
		res.SigKey = []any{s.D, s.SpanShape, s.SpanK, s.Candidate, s.Getter, s.Via, s.S, s.SoftType}
		res.label("candidate="+s.Candidate, "getter="+s.Getter, "via="+s.Via, fmt.Sprintf("soft=%v", soft))
		res.Obs = map[string]any{"verr": fmt.Sprint(verr), "by_height_calls": nByHeight, "bound": bound, "direct": direct, "elapsed": elapsed.String(), "rounds": rounds}

		if nByHeight > bound+2 {
			res.failf("bifurcation over distance %d used %d GetByHeight requests (bound %d)", s.D, nByHeight, bound)
			return
		}
		if elapsed > time.Minute {
			res.failf("verification took %v of virtual time", elapsed)
			return
		}
		accepted := verr == nil
		if s.Via == "head" {
			accepted = verr == nil && headRet != nil && vh.Equal(headRet, cand)
			if s.Joiner && !accepted && verr == nil {
				// with two callers either of them may be the one that took the candidate through the search;
				// acceptance is what the Syncer holds as its subjective head afterwards
				if lh, err := e.syncer.Head(ctx); err == nil && vh.Equal(lh, cand) {
					accepted = true
				}
			}
			if verr != nil {
				res.failf("Syncer.Head failed: %v", verr)
				return
			}
			if headRet == nil || !chain.IsCanonical(headRet) {
				res.failf("Syncer.Head returned %v which is not a header of the chain", headRet)
				return
			}
		}
		if !canonical && accepted {
			res.failf("candidate %v cannot be verified (%s) but was accepted", cand, s.Candidate)
			return
		}
		// every header that is now subjective head / sync target / stored is canonical
		if lh, err := e.syncer.Head(ctx); err != nil || !chain.IsCanonical(lh) {
			res.failf("after the attempt the subjective head is (%v, %v)", lh, err)
			return
		}
		if st := e.syncer.State(); !canonical && fmtHash(st.ToHash) == fmtHash(cand.Hash()) {
			res.failf("refused candidate became the sync target")
			return
		}
		if s.Getter == "honest" && canonical && !accepted {
			res.failf("candidate is the chain's header at %d and the getter is honest, so a chain of verifications exists (adjacent steps at worst), yet it was refused: %v", tip, verr)
			return
		}
		if s.Getter == "fail_at" && soft && s.J < nByHeight+1 && failedSeen && accepted && s.Via == "gossip" {
			res.failf("an intermediate could not be fetched (GetByHeight #%d failed) but the candidate was accepted", s.J)
			return
		}
		// heal and let it sync: the store ends up as the canonical run, at the candidate if accepted
		e.getter.set(func() {
			e.getter.ByHeightFail, e.getter.ForgedAt, e.getter.HeadMode, e.getter.MaxByHeight = -1, 0, "", 0
		})
		if !e.quiesce(400) {
			res.failf("HARNESS: no quiescence after the attempt")
			return
		}
		if v := e.storeIsCanonicalRun(); v != "" {
			res.failf("after the attempt: %s", v)
			return
		}
		if accepted && s.Getter == "honest" {
			sh, err := e.st.Head(ctx)
			if err != nil || sh.H != tip {
				res.failf("candidate %d was accepted but the store head is %v after quiescence (state %+v)", tip, sh, e.syncer.State())
				return
			}
		}
		synctest.Wait()
	})
	return res
}

func asVerifyErr(err error, target **header.VerifyError) bool {
	for err != nil {
		if ve, ok := err.(*header.VerifyError); ok {
			*target = ve
			return true
		}
		u, ok := err.(interface{ Unwrap() error })
		if !ok {
			return false
		}
		err = u.Unwrap()
	}
	return false
}

func TestC15(t *testing.T) {
	maxD := 300
	if tier() == "thorough" {
		maxD = 3000
	}
	check(t, "C15", genC15(maxD), runC15)
}
func TestC15Replay(t *testing.T) { replay(t, "C15", runC15) }
