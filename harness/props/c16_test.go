package props

import (
	"context"
	"encoding/hex"
	"fmt"
	"testing"
	"testing/synctest"
	"time"

	hsync "github.com/celestiaorg/go-header/sync"
	"pgregory.net/rapid"

	"verif/harness/vh"
)

// C16 — Tail selection and pruning keep the tail within the chain and never crash.

type C16Cfg struct {
	WindowMs    int64  `json:"window_ms"`     // 0 = unset
	BlockTimeMs int64  `json:"block_time_ms"` // 0 = unset (the default)
	TrustingMs  int64  `json:"trusting_ms"`
	FromHeight  uint64 `json:"from_height"`           // 0 = unset; else taken modulo the head
	FromHashAt  uint64 `json:"from_hash_at"`          // 0 = unset; else hash of the chain header at this height (mod head)
	Grow        int    `json:"grow"`                  // headers the network grows by before this configuration starts
	Unreachable int    `json:"unreachable,omitempty"` // 1: SyncFromHeight above the network head; 2: SyncFromHash unknown to every peer
}

type C16Scenario struct {
	N        int      `json:"n"`         // network head at the beginning
	DeltasMs []int64  `json:"deltas_ms"` // header time deltas, cycled
	HaltAt   int      `json:"halt_at"`   // height after which the chain halted ...
	HaltMs   int64    `json:"halt_ms"`   // ... for this long (0 = no halt)
	Empty    bool     `json:"empty"`     // start with an empty store
	T0       int      `json:"t0"`        // else the store holds [t0 .. h0]
	H0       int      `json:"h0"`
	Cfgs     []C16Cfg `json:"cfgs"`
}

func genC16Cfg(t *rapid.T) C16Cfg {
	c := C16Cfg{
		WindowMs:    rapid.SampledFrom([]int64{0, 1, 1000, 10_000, 60_000, 600_000, 3_600_000, 1_213_200_000}).Draw(t, "window"),
		BlockTimeMs: rapid.SampledFrom([]int64{0, 0, 1, 100, 1000, 1000, 5000, 60_000, 3_600_000}).Draw(t, "blocktime"),
		TrustingMs:  rapid.SampledFrom([]int64{1000, 60_000, 3_600_000, 1_209_600_000}).Draw(t, "trusting"),
		Grow:        rapid.IntRange(0, 3).Draw(t, "grow"),
	}
	switch rapid.IntRange(0, 5).Draw(t, "from") {
	case 0:
		c.FromHeight = rapid.Uint64Range(1, 500).Draw(t, "fromheight")
	case 1:
		c.FromHashAt = rapid.Uint64Range(1, 500).Draw(t, "fromhash")
	case 2:
		// a tail nobody can serve: a height above the network head, or a hash no peer knows. Start may (and
		// will) fail; it must not panic or hang, and the store must stay what it was
		c.Unreachable = rapid.IntRange(1, 2).Draw(t, "unreachable")
	}
	return c
}

func genC16(t *rapid.T) C16Scenario {
	s := C16Scenario{
		N:        rapid.SampledFrom([]int{1, 2, 5, 20, 100, 400}).Draw(t, "n"),
		DeltasMs: rapid.SliceOfN(rapid.SampledFrom([]int64{0, 1, 100, 1000, 1000, 1000, 5000, 60_000}), 1, 4).Draw(t, "deltas"),
		Empty:    rapid.IntRange(0, 2).Draw(t, "empty") == 0,
	}
	if rapid.IntRange(0, 3).Draw(t, "halt") == 0 {
		s.HaltAt = rapid.IntRange(1, s.N).Draw(t, "haltat")
		s.HaltMs = rapid.SampledFrom([]int64{30_000, 1_000_000, 20_000_000, 5_000_000_000}).Draw(t, "haltms")
	}
	s.T0 = rapid.IntRange(1, s.N).Draw(t, "t0")
	s.H0 = rapid.IntRange(s.T0, s.N).Draw(t, "h0")
	n := rapid.IntRange(1, 4).Draw(t, "ncfgs")
	for i := 0; i < n; i++ {
		s.Cfgs = append(s.Cfgs, genC16Cfg(t))
	}
	return s
}

func (c C16Cfg) opts(chain *vh.Chain, head uint64) []hsync.Option {
	o := []hsync.Option{
		hsync.WithTrustingPeriod(time.Duration(c.TrustingMs) * time.Millisecond),
		hsync.WithPruningWindow(time.Duration(c.WindowMs) * time.Millisecond),
	}
	if c.BlockTimeMs > 0 {
		o = append(o, hsync.WithBlockTime(time.Duration(c.BlockTimeMs)*time.Millisecond))
	}
	if c.FromHeight > 0 {
		o = append(o, hsync.WithSyncFromHeight(1+(c.FromHeight-1)%head))
	}
	switch c.Unreachable {
	case 1:
		o = append(o, hsync.WithSyncFromHeight(head+5))
	case 2:
		o = append(o, hsync.WithSyncFromHash(hex.EncodeToString(vh.Variant(chain.At(1), vh.AdvForged, 99).Hash())))
	}
	if c.FromHashAt > 0 {
		o = append(o, hsync.WithSyncFromHash(hex.EncodeToString(chain.At(1+(c.FromHashAt-1)%head).Hash())))
	}
	return o
}

func runC16(t *testing.T, s C16Scenario) (res Result) {
	bubble(t, func() {
		total := s.N + 20
		deltas := make([]int64, total)
		var sumToN int64
		for i := range deltas {
			deltas[i] = s.DeltasMs[i%len(s.DeltasMs)]
			if s.HaltMs > 0 && i == s.HaltAt {
				deltas[i] += s.HaltMs
			}
			if i >= 1 && i < s.N {
				sumToN += deltas[i]
			}
		}
		// growth beyond N continues at the regular pace, at least 1ms apart so that the clock can follow
		for i := s.N; i < total; i++ {
			if deltas[i] == 0 || (s.HaltMs > 0 && i == s.HaltAt) {
				deltas[i] = 1000
			}
		}
		chain := vh.ChainSpec{ChainID: "c16", N: total, StartMs: -sumToN, DeltaMs: deltas}.Build()
		e, err := newSyncEnv(chain, uint64(s.N), time.Second, nil)
		if err != nil {
			res.failf("HARNESS: %v", err)
			return
		}
		var running []*hsync.Syncer[*vh.Header]
		defer func() {
			for _, r := range running {
				_ = r.Stop(context.Background())
			}
			e.syncer = nil
			e.stop()
		}()
		ctx, cancel := vctx(100_000 * time.Hour)
		defer cancel()
		if !s.Empty {
			if err := e.st.Append(ctx, chain.Range(uint64(s.T0), uint64(s.H0)+1)...); err != nil {
				res.failf("HARNESS: prefill: %v", err)
				return
			}
			_ = e.st.Sync(ctx)
		}
		var maxDelta int64
		for i := 1; i < total; i++ {
			if deltas[i] > maxDelta {
				maxDelta = deltas[i]
			}
		}
		movedTail, nontrivCfg := false, false
		for ci, cfg := range s.Cfgs {
			tag := fmt.Sprintf("configuration #%d %+v", ci, cfg)
			// the network grows a little; the clock follows so that the tip stays fresh
			for g := 0; g < cfg.Grow; g++ {
				tip := e.getter.Tip()
				if tip+1 >= uint64(total) {
					break
				}
				time.Sleep(chain.At(tip + 1).Time().Sub(chain.At(tip).Time()))
				e.getter.SetTip(tip + 1)
			}
			tip := e.getter.Tip()
			head := chain.At(tip)
			e.opts = cfg.opts(chain, tip)
			syncer, err := hsync.NewSyncer[*vh.Header](e.getter, e.st, e.sub, e.opts...)
			if err != nil {
				res.label("rejected_config")
				continue // not accepted by Validate: outside the quantifier
			}
			var oldTail, oldHead uint64
			storedBefore := map[uint64]bool{}
			if ot, err := e.st.Tail(ctx); err == nil {
				oldTail = ot.H
				if oh, err := e.st.Head(ctx); err == nil {
					oldHead = oh.H
				}
				for h := oldTail; h <= oldHead; h++ {
					storedBefore[h] = true
				}
			}
			callsBefore := len(e.getter.Calls())

			type outcome struct {
				err      error
				panicked any
			}
			run := func(f func() error) (outcome, bool) {
				ch := make(chan outcome, 1)
				go func() {
					defer func() {
						if r := recover(); r != nil {
							ch <- outcome{panicked: r}
						}
					}()
					ch <- outcome{err: f()}
				}()
				tm := time.NewTimer(2 * time.Hour)
				defer tm.Stop()
				select {
				case o := <-ch:
					return o, true
				case <-tm.C:
					return outcome{}, false
				}
			}
			running = append(running, syncer)
			o, ok := run(func() error { return startScopedIn(ctx, syncer.Start) })
			if !ok {
				res.failf("%s: Start did not return within 2h of virtual time", tag)
				return
			}
			if o.panicked != nil {
				res.failf("%s: Start panicked: %v", tag, o.panicked)
				return
			}
			startErr := o.err
			var headErr error
			var subjH uint64
			if startErr == nil {
				e.syncer = syncer
				o, ok = run(func() error {
					h, err := syncer.Head(ctx)
					if err == nil && h != nil {
						subjH = h.H
					}
					return err
				})
				if !ok {
					res.failf("%s: Head did not return within 2h of virtual time", tag)
					return
				}
				if o.panicked != nil {
					res.failf("%s: Head panicked: %v", tag, o.panicked)
					return
				}
				headErr = o.err
			}
			// wrap-around detector: nothing above the head is ever asked for
			for _, c := range e.getter.Calls()[callsBefore:] {
				if c.Method == "GetByHeight" && c.A > tip && cfg.Unreachable != 1 {
					res.failf("%s: tail computation asked the getter for height %d, the head is %d", tag, c.A, tip)
					return
				}
			}
			if cfg.Unreachable > 0 {
				// no panic, no hang (judged above); whatever Start/Head answered, the store is still one canonical run
				res.label(fmt.Sprintf("unreachable_tail_start_err=%v", startErr != nil))
				nontrivCfg = true
				_ = syncer.Stop(context.Background())
				e.syncer = nil
				synctest.Wait()
				if _, err := e.st.Head(ctx); err == nil {
					if v := e.storeIsCanonicalRun(); v != "" {
						res.failf("%s: %s", tag, v)
						return
					}
				}
				continue
			}
			if startErr != nil {
				res.failf("%s: Start failed although the getter is honest and holds the whole chain: %v", tag, startErr)
				return
			}
			if headErr != nil {
				res.failf("%s: Head failed although the getter is honest and holds the whole chain: %v", tag, headErr)
				return
			}
			if !e.quiesce(400) {
				res.failf("HARNESS: no quiescence after %s", tag)
				return
			}
			if v := e.storeIsCanonicalRun(); v != "" {
				res.failf("%s: %s", tag, v)
				return
			}
			nt, terr := e.st.Tail(ctx)
			nh, herr := e.st.Head(ctx)
			if terr != nil || herr != nil {
				res.failf("%s: after Start the store has Tail err=%v, Head err=%v", tag, terr, herr)
				return
			}
			if nt.H < 1 || nt.H > nh.H {
				res.failf("%s: Tail %d, Head %d", tag, nt.H, nh.H)
				return
			}
			if nh.H != subjH {
				res.failf("%s: at quiescence the store head is %d, Syncer.Head returned %d (network head %d, state %+v)", tag, nh.H, subjH, tip, syncer.State())
				return
			}
			head = chain.At(subjH)
			tip = subjH
			if oldTail != 0 && nt.H != oldTail {
				movedTail = true
			}
			// retention: headers younger than the window survive, if the chain kept the configured pace
			windowMode := cfg.FromHeight == 0 && cfg.FromHashAt == 0 && cfg.WindowMs > 0
			if windowMode && cfg.BlockTimeMs > 0 && maxDelta <= cfg.BlockTimeMs && oldTail != 0 {
				cutoff := head.Time().Add(-time.Duration(cfg.WindowMs) * time.Millisecond)
				for h := oldTail; h <= tip; h++ {
					if !chain.At(h).Time().After(cutoff) || !storedBefore[h] {
						continue // only what was stored can be deleted
					}
					c1, cn := vctx(time.Second)
					_, err := e.st.GetByHeight(c1, h)
					cn()
					if err != nil {
						res.failf("%s: header %d is younger than the pruning window (age %v, window %v, header spacing <= block time) but is gone; tail moved %d -> %d, head %d",
							tag, h, head.Time().Sub(chain.At(h).Time()), time.Duration(cfg.WindowMs)*time.Millisecond, oldTail, nt.H, tip)
						return
					}
				}
				res.label("retention_checked")
			}
			if cfg.BlockTimeMs == 0 || (s.HaltMs > cfg.WindowMs && cfg.WindowMs > 0) || (cfg.WindowMs > 0 && head.Time().Sub(chain.At(1).Time()) < time.Duration(cfg.WindowMs)*time.Millisecond) || movedTail {
				nontrivCfg = true
			}
			_ = syncer.Stop(context.Background())
			e.syncer = nil
			synctest.Wait()
		}
		res.NonTrivial = nontrivCfg
		if movedTail {
			res.label("reconfiguration_moved_tail")
		}
		if s.HaltMs > 0 {
			res.label("halted_chain")
		}
		if s.Empty {
			res.label("empty_store")
		}
	})
	return res
}

func TestC16(t *testing.T)       { check(t, "C16", genC16, runC16) }
func TestC16Replay(t *testing.T) { replay(t, "C16", runC16) }
