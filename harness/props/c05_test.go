package props

import (
	"context"
	"errors"
	"fmt"
	"testing"
	"testing/synctest"
	"time"

	"github.com/celestiaorg/go-header/p2p"
	"github.com/libp2p/go-libp2p/core/peer"
	"pgregory.net/rapid"

	"verif/harness/vh"
)

// C05 — Exchange.GetRangeByHeight yields a verified contiguous run from from+1 or fails.

type C05Scenario struct {
	// Metrics: the Exchange is built WithMetrics (a configuration that must not change any result)
	Metrics bool `json:"metrics,omitempty"`
	// Restart: the Exchange is stopped and started again before it is used
	Restart   bool          `json:"restart,omitempty"`
	From      uint64        `json:"from"`
	ToRel     int           `json:"to_rel"` // to = from + to_rel
	Chunk     uint64        `json:"chunk"`  // MaxHeadersPerRangeRequest
	TimeoutMs int           `json:"timeout_ms"`
	Peers     [][]Behaviour `json:"peers"`
}

var c05Kinds = []string{
	bhCorrect, bhCorrect, bhCorrect, bhCorrect, bhShift, bhShift, bhShiftInside, bhShiftInside, bhRepeatPrev, bhReorder, bhForged, bhWrongChain, bhNoChain, bhBadValidate,
	bhGarbage, bhUnknownCode, bhUnknownBody, bhNotFound, bhEmpty, bhShortPrefix, bhOverlap, bhMore, bhHang, bhReset, bhRawGarbage,
	bhDupInside, bhGapInside, bhTruncated, bhOversized, bhNilBodyOK, bhInvalidCode,
	bhPanicValidate, bhPanicVerify, bhPanicDecode, bhBadValidateChain, bhBadValidateChain,
}

func genC05(t *rapid.T) C05Scenario {
	s := C05Scenario{
		From:      rapid.Uint64Range(1, 30).Draw(t, "from"),
		Chunk:     rapid.SampledFrom([]uint64{1, 2, 3, 5, 8, 16, 64}).Draw(t, "chunk"),
		TimeoutMs: 1000,
	}
	switch rapid.IntRange(0, 9).Draw(t, "toclass") {
	case 0:
		s.ToRel = rapid.IntRange(-3, 1).Draw(t, "todegenerate")
	default:
		s.ToRel = 2 + rapid.IntRange(0, int(min(3*s.Chunk, 60))).Draw(t, "tolen")
	}
	np := rapid.IntRange(1, 5).Draw(t, "npeers")
	for i := 0; i < np; i++ {
		var script []Behaviour
		n := rapid.IntRange(1, 4).Draw(t, "nbeh")
		for j := 0; j < n; j++ {
			script = append(script, Behaviour{
				Kind:    rapid.SampledFrom(c05Kinds).Draw(t, "kind"),
				DelayMs: rapid.SampledFrom([]int{0, 0, 5, 100, 1500}).Draw(t, "delay"),
				K:       rapid.IntRange(-4, 6).Draw(t, "k"),
			})
		}
		s.Peers = append(s.Peers, script)
	}
	s.Metrics = rapid.IntRange(0, 3).Draw(t, "metrics") == 0
	// no Restart here: the peer tracker is not restartable upstream (its context is created by the constructor), so a
	// restarted Exchange never learns about peers connecting later; Head/Get (C09, C13) do not depend on it
	return s
}

type exchangeEnv struct {
	ne    *netEnv
	chain *vh.Chain
	peers []*scriptedPeer
	ex    *p2p.Exchange[*vh.Header]
}

// newExchangeEnv builds a client (host 0) and scripted peers (hosts 1..n), all connected and tracked.
func newExchangeEnv(chain *vh.Chain, scripts [][]Behaviour, chunk uint64, timeout time.Duration) (*exchangeEnv, error) {
	ne, err := newNet(len(scripts) + 1)
	if err != nil {
		return nil, err
	}
	e := &exchangeEnv{ne: ne, chain: chain}
	var ids []peer.ID
	for i, sc := range scripts {
		e.peers = append(e.peers, newScriptedPeer(ne.hosts[i+1], chain, sc))
		ids = append(ids, ne.hosts[i+1].ID())
	}
	ex, err := newClient(ne.hosts[0], ids, chain.Spec.ChainID,
		p2p.WithRequestTimeout[p2p.ClientParameters](timeout),
		p2p.WithMaxHeadersPerRangeRequest[p2p.ClientParameters](chunk))
	if err != nil {
		ne.close()
		return nil, err
	}
	e.ex = ex
	if err := ne.connectAll(); err != nil {
		e.close()
		return nil, err
	}
	synctest.Wait()
	return e, nil
}

func (e *exchangeEnv) close() {
	time.Sleep(10 * time.Second)
	for _, p := range e.peers {
		p.closeHung()
	}
	synctest.Wait()
	c2, cn := vctx(10 * time.Second)
	_ = e.ex.Stop(c2)
	cn()
	e.ne.close()
}

func runC05(t *testing.T, s C05Scenario) (res Result) {
	exchangeMetrics, exchangeRestart = s.Metrics, s.Restart
	defer func() { exchangeMetrics, exchangeRestart = false, false }()
	// a header type with a crashing code path on attacker-chosen content: "no peer response can crash the client"
	vh.ArmPanics(true)
	defer vh.ArmPanics(false)
	bubble(t, func() {
		chain := vh.ChainSpec{ChainID: "c05", N: 140, StartMs: -1_000_000}.Build()
		e, err := newExchangeEnv(chain, s.Peers, s.Chunk, time.Duration(s.TimeoutMs)*time.Millisecond)
		if err != nil {
			res.failf("HARNESS: %v", err)
			return
		}
		defer e.close()
		from := chain.At(s.From)
		to := uint64(0)
		if int64(s.From)+int64(s.ToRel) > 0 {
			to = uint64(int64(s.From) + int64(s.ToRel))
		}
		degenerate := to <= s.From+1
		const callerDeadline = 6 * time.Second
		ctx, cancel := vctx(callerDeadline)
		defer cancel()
		t0 := time.Now()
		var got []*vh.Header
		var gerr error
		func() {
			defer func() {
				if r := recover(); r != nil {
					res.failf("GetRangeByHeight(from %d, to %d) panicked: %v", s.From, to, r)
				}
			}()
			got, gerr = e.ex.GetRangeByHeight(ctx, from, to)
		}()
		if res.Verdict != "" {
			return
		}
		elapsed := time.Since(t0)

		exercised := map[string]bool{}
		nBad := 0
		for _, p := range e.peers {
			for _, r := range p.requests() {
				exercised[r.Kind] = true
				if r.Kind != bhCorrect {
					nBad++
				}
			}
		}
		for k := range exercised {
			res.label("beh=" + k)
		}
		res.label(fmt.Sprintf("degenerate=%v", degenerate))
		res.NonTrivial = nBad > 0 || degenerate
		res.SigKey = nil
		res.Obs = map[string]any{"from": s.From, "to": to, "n_got": len(got), "err": fmt.Sprint(gerr), "elapsed": elapsed.String()}

		if degenerate {
			if gerr == nil {
				res.failf("degenerate request (from %d, to %d) returned %d headers and a nil error", s.From, to, len(got))
				return
			}
			if elapsed >= callerDeadline || errors.Is(gerr, context.DeadlineExceeded) {
				res.failf("degenerate request (from %d, to %d) hung until the caller's context ended (%v): %v", s.From, to, elapsed, gerr)
				res.Known = ""
			}
			return
		}
		if gerr != nil {
			if len(got) != 0 {
				res.failf("error %v returned together with %d headers", gerr, len(got))
			}
			return
		}
		if len(got) == 0 {
			res.failf("empty slice returned with a nil error")
			return
		}
		for i, h := range got {
			wantH := s.From + 1 + uint64(i)
			if h == nil || h.H != wantH {
				hs := make([]uint64, len(got))
				for j, x := range got {
					if x != nil {
						hs[j] = x.H
					}
				}
				res.failf("returned heights %v are not exactly %d, %d, ... (element %d)", hs, s.From+1, s.From+2, i)
				return
			}
			if h.H >= to {
				res.failf("returned header %d is not below to=%d", h.H, to)
				return
			}
			if !chain.IsCanonical(h) {
				res.failf("returned header %v never passed Validate+Verify from the given header (it is not the chain's header)", h)
				return
			}
		}
	})
	return res
}

func TestC05(t *testing.T)       { check(t, "C05", genC05, runC05) }
func TestC05Replay(t *testing.T) { replay(t, "C05", runC05) }
