package props

import (
	"context"
	"fmt"
	"strings"
	"sync"
	"testing"
	"testing/synctest"
	"time"

	hsync "github.com/celestiaorg/go-header/sync"
	"pgregory.net/rapid"

	"verif/harness/sched"
	"verif/harness/vh"
)

// C03, schedule engine: the interleavings of the gossip handler / Head callers with the syncing routine
// are chosen by a tape at the sync package's yield points (accesses to the pending ranges and to the cached
// store head, the incomingMu boundaries) and at the getter calls, instead of being sampled by real
// goroutines. incomingMu is emulated by the scheduler (a goroutine parked at "incoming:lock" is released
// only while nobody holds it), so goroutines can be parked inside the critical section as well.

type SchedActor struct {
	Kind  string `json:"kind"`            // gossip | head | grow (the network produces one more header)
	K     int    `json:"k,omitempty"`     // gossip: the header at prefill+k
	Adv   string `json:"adv,omitempty"`   // "" (the chain's header) | twin (same lineage and link, other content) | forged
	After int    `json:"after,omitempty"` // 1-based index of the actor that must have finished first; 0 = starts at once
}

type SyncSchedScenario struct {
	Prefill   int          `json:"prefill"`
	Net       int          `json:"net"` // the network is at prefill+net
	Actors    []SchedActor `json:"actors"`
	Tape      []int        `json:"tape"`
	Canonical bool         `json:"canonical,omitempty"`
	RangeErrs int          `json:"range_errs,omitempty"` // the getter fails the first N range requests
	// Fresh: the schedule starts while the network's head is still recent, so Head() answers from what the Syncer
	// holds without asking the peers; Head() results are then judged for monotonicity instead of against the peers
	Fresh bool `json:"fresh,omitempty"`
	Span  int  `json:"span,omitempty"` // > 0: headers verify at most Span heights ahead (heads further away need bifurcation)
}

func genSyncSched(t *rapid.T) SyncSchedScenario {
	s := SyncSchedScenario{
		Prefill: rapid.SampledFrom([]int{1, 2, 5}).Draw(t, "prefill"),
		Net:     rapid.IntRange(1, 6).Draw(t, "net"),
	}
	n := rapid.IntRange(2, 5).Draw(t, "nactors")
	var canon []int // indices of canonical gossip actors
	for i := 0; i < n; i++ {
		a := SchedActor{Kind: "gossip", K: rapid.IntRange(0, s.Net).Draw(t, "k")} // 0 = the network's head at that moment
		switch rapid.IntRange(0, 7).Draw(t, "akind") {
		case 0:
			a = SchedActor{Kind: "head"}
		case 7:
			a = SchedActor{Kind: "grow"}
		case 1, 2:
			if len(canon) > 0 {
				// an equivocating twin of a height that is known by then: after a delivery of the chain's header
				// at that height or above
				j := rapid.SampledFrom(canon).Draw(t, "twinafter")
				a.Adv, a.After = "twin", j+1
				a.K = rapid.IntRange(1, max(1, s.Actors[j].K)).Draw(t, "twink")
			}
		case 3:
			a.Adv = "forged"
			a.K = max(a.K, 1)
		}
		if a.Kind == "gossip" && a.Adv == "" {
			if i == 0 {
				a.K = rapid.IntRange(max(1, s.Net-1), s.Net).Draw(t, "k0") // start with a sync of some length
			}
			canon = append(canon, i)
		}
		if a.After == 0 && i > 0 && rapid.IntRange(0, 3).Draw(t, "chain") == 0 {
			a.After = 1 + rapid.IntRange(0, i-1).Draw(t, "after")
		}
		s.Actors = append(s.Actors, a)
	}
	s.Tape = rapid.SliceOfN(rapid.IntRange(0, 19), 0, 200).Draw(t, "tape")
	s.RangeErrs = rapid.SampledFrom([]int{0, 0, 0, 1, 2}).Draw(t, "rangeerrs")
	s.Span = rapid.SampledFrom([]int{0, 0, 1, 2}).Draw(t, "span")
	s.Fresh = rapid.IntRange(0, 3).Draw(t, "fresh") == 0
	return s
}

type schedActorObs struct {
	Err  string `json:"err,omitempty"`
	Head uint64 `json:"head,omitempty"`
	Done bool   `json:"done"`
	// the network's head when the actor started / finished
	TipBefore uint64 `json:"tip_before,omitempty"`
	TipAfter  uint64 `json:"tip_after,omitempty"`
	Refuse    bool   `json:"must_refuse,omitempty"`
}

func runSyncSched(t *testing.T, s SyncSchedScenario) (res Result) {
	bubble(t, func() {
		delta := time.Second
		prefill, tip := uint64(s.Prefill), uint64(s.Prefill+s.Net)
		var spans []uint64
		if s.Span > 0 {
			spans = []uint64{uint64(s.Span)}
		}
		grows := 0
		for _, a := range s.Actors {
			if a.Kind == "grow" {
				grows++
			}
		}
		chain := newSyncChain("c03s", int(tip)+grows+5, prefill, delta, spans)
		e, err := newSyncEnv(chain, prefill, delta, nil,
			hsync.WithBlockTime(delta), hsync.WithTrustingPeriod(10_000*time.Hour),
			hsync.WithSyncFromHeight(1), hsync.WithPruningWindow(10_000*time.Hour))
		if err != nil {
			res.failf("HARNESS: %v", err)
			return
		}
		defer e.stop()
		ctx, cancel := vctx(1000 * time.Hour)
		defer cancel()
		if err := e.st.Append(ctx, chain.Range(1, prefill+1)...); err != nil {
			res.failf("HARNESS: prefill: %v", err)
			return
		}
		_ = e.st.Sync(ctx)
		if err := e.startSyncer(ctx); err != nil {
			res.failf("HARNESS: Syncer.Start: %v", err)
			return
		}
		if !e.quiesce(200) {
			res.failf("HARNESS: no quiescence after Start")
			return
		}
		// the network moves on; the stored head is not recent any more
		e.getter.SetTip(tip)
		if s.Fresh {
			time.Sleep(time.Duration(s.Net) * delta) // the network's head is stamped "now"
		} else {
			time.Sleep(time.Duration(s.Net+grows)*delta + 5*time.Second)
		}

		sc := sched.New()
		sc.Canonical = s.Canonical
		hsync.VerifSetYield(sc.Yield)
		e.getter.set(func() { e.getter.Park, e.getter.RangeErrs = sc.Yield, s.RangeErrs })
		off := func() {
			sc.Off()
			hsync.VerifSetYield(nil)
			e.getter.set(func() { e.getter.Park = nil })
		}
		defer off()

		obs := make([]schedActorObs, len(s.Actors))
		done := make([]chan struct{}, len(s.Actors))
		for i := range done {
			done[i] = make(chan struct{})
		}
		var mu sync.Mutex
		var wg sync.WaitGroup
		var advHashes []string
		for i, a := range s.Actors {
			i, a := i, a
			var hdr *vh.Header
			if a.Kind == "gossip" {
				k := uint64(min(max(a.K, 1), s.Net))
				hdr = chain.At(prefill + k)
				switch a.Adv {
				case "twin":
					hdr = hdr.Clone()
					hdr.Salt = uint32(7000 + i)
					hdr.Seal()
					advHashes = append(advHashes, fmtHash(hdr.Hash()))
				case "forged":
					hdr = vh.Variant(hdr, vh.AdvForged, uint32(100+i))
					advHashes = append(advHashes, fmtHash(hdr.Hash()))
				}
			}
			wg.Add(1)
			go func() {
				defer wg.Done()
				defer close(done[i])
				if a.After > 0 && a.After-1 < i {
					<-done[a.After-1]
				}
				role := "g"
				if a.Kind == "head" {
					role = "h"
				}
				if a.Kind == "grow" {
					role = "w" // the world
				}
				sc.Yield(fmt.Sprintf("%s%d:start", role, i))
				var o schedActorObs
				o.TipBefore = e.getter.Tip()
				if a.Kind == "grow" {
					e.getter.SetTip(o.TipBefore + 1)
				} else if a.Kind == "head" {
					h, err := e.syncer.Head(ctx)
					if err != nil {
						o.Err = err.Error()
					} else if h != nil {
						o.Head = h.H
						if !chain.IsCanonical(h) {
							o.Err = fmt.Sprintf("NONCANONICAL %v", h)
						}
					}
				} else {
					if a.Adv == "" && a.K == 0 {
						hdr = chain.At(o.TipBefore) // whatever the network's head is right now
					}
					o.Head = hdr.H
					gctx, gcancel := context.WithTimeout(ctx, time.Hour)
					err := e.sub.deliver(gctx, hdr)
					gcancel()
					if err != nil {
						o.Err = err.Error()
					}
				}
				o.Done = true
				o.TipAfter = e.getter.Tip()
				mu.Lock()
				obs[i] = o
				mu.Unlock()
			}()
		}
		allDone := func() bool {
			for _, d := range done {
				select {
				case <-d:
				default:
					return false
				}
			}
			return e.getter.Outstanding() == 0
		}
		finished := sc.Run(s.Tape, allDone, 4000, 10*time.Millisecond)
		for _, st := range sc.Trace {
			res.TraceK = append(res.TraceK, st.K)
			res.TraceN = append(res.TraceN, st.N)
		}
		off()
		if !finished {
			wg.Wait()
			res.failf("HARNESS: schedule did not finish within the step budget (trace %v)", sc.Trace)
			return
		}
		wg.Wait()

		// non-triviality: a handler or Head caller was released while the syncing routine was parked in the
		// middle of a sync (between learning the target and having stored it), or the other way round
		overlap := false
		for _, st := range sc.Trace {
			mine := len(st.Point) > 1 && (st.Point[0] == 'g' || st.Point[0] == 'h') && st.Point[1] >= '0' && st.Point[1] <= '9'
			if mine {
				continue
			}
			if len(st.Others) > 0 {
				overlap = true
			}
		}
		res.NonTrivial = overlap
		res.SigKey = nil
		res.label(fmt.Sprintf("actors=%d", len(s.Actors)))
		res.Obs = map[string]any{"actors": obs, "steps": sc.Steps}

		for i, a := range s.Actors {
			o := obs[i]
			tag := fmt.Sprintf("actor %d (%s %s k=%d after=%d)", i, a.Kind, a.Adv, a.K, a.After)
			if !o.Done {
				res.failf("%s did not finish", tag)
				return
			}
			switch {
			case a.Kind == "head":
				if o.Err != "" {
					res.failf("%s: Syncer.Head with an honest getter: %s", tag, o.Err)
					return
				}
				// the clock stands still during the schedule and nothing the Syncer holds is recent, so every
				// caller depends on the (possibly shared) head request: it must come back with the peers' head,
				// whoever of the concurrent callers and handlers got to apply it first
				if s.Fresh {
					// answered from the subjective head: never below what an earlier, finished Head() returned or an
					// earlier, finished delivery made the Syncer accept
					if o.Head < prefill || o.Head > e.getter.Tip() {
						res.failf("%s: Syncer.Head returned height %d outside [%d, %d]", tag, o.Head, prefill, e.getter.Tip())
						return
					}
					if j := a.After - 1; j >= 0 && j < i && obs[j].Err == "" && obs[j].Head > o.Head &&
						(s.Actors[j].Kind == "head" || (s.Actors[j].Kind == "gossip" && s.Actors[j].Adv == "")) {
						res.failf("%s: Syncer.Head returned height %d after %s %d had finished with height %d: the head went backwards", tag, o.Head, s.Actors[j].Kind, j, obs[j].Head)
						return
					}
					break
				}
				if o.Head < o.TipBefore || o.Head > e.getter.Tip() {
					res.failf("%s: Syncer.Head returned height %d, the trusted peers were at %d when it was called and are at %d now", tag, o.Head, o.TipBefore, e.getter.Tip())
					return
				}
			case a.Kind == "gossip" && a.Adv == "":
				// the chain's own header, with an honest getter for the intermediates: it is taken, or it is
				// known already - never refused for another reason (e.g. because another candidate is being
				// processed at that moment)
				if o.Err != "" && !strings.Contains(o.Err, "known header") {
					res.failf("%s: the chain's header %d was refused although it is verifiable: %s", tag, o.Head, o.Err)
					return
				}
			case a.Adv == "forged":
				if o.Err == "" {
					res.failf("%s: a header of another lineage was accepted", tag)
					return
				}
			case a.Adv == "twin":
				// the chain's header of that height (or above) had been delivered before this actor started;
				// if the Syncer took it (no error, or "known"), the height is taken and the twin must be refused
				if j := a.After - 1; j >= 0 && j < i && s.Actors[j].Kind == "gossip" && s.Actors[j].Adv == "" && obs[j].Head >= o.Head {
					if o.Err == "" {
						res.failf("%s: an equivocating twin of height %d was accepted although the chain's header up to %d had been taken before (%q)",
							tag, o.Head, obs[j].Head, obs[j].Err)
						return
					}
				}
			}
		}
		if !e.quiesce(400) {
			res.failf("HARNESS: no quiescence after the schedule")
			return
		}
		if v := e.storeIsCanonicalRun(); v != "" {
			res.failf("after the schedule: %s", v)
			return
		}
		// C07's demand under every schedule: without a getter error the store reaches the newest head the
		// Syncer took (gossip accepted without error, or returned by Head()) with no further stimulus
		var newest uint64
		for i, a := range s.Actors {
			switch {
			case a.Kind == "head" && obs[i].Err == "":
				newest = max(newest, obs[i].Head)
			case a.Kind == "gossip" && a.Adv == "" && obs[i].Err == "":
				newest = max(newest, obs[i].Head)
			}
		}
		getterErr := false
		for _, c := range e.getter.Calls() {
			if c.Err != "" {
				getterErr = true
			}
		}
		if sh, err := e.st.Head(ctx); !getterErr && newest > 0 && (err != nil || sh.H < newest) {
			res.failf("after the schedule, at quiescence and without any getter error: the Syncer took head %d but the store head is (%v, %v), state %+v", newest, sh, err, e.syncer.State())
			return
		}
		// heal: the getter is fine again and a new head is learned (a sync aborted by a getter error is only
		// resumed by the next learned head); the store must reach it
		e.getter.set(func() { e.getter.RangeErrs = 0 })
		tip = e.getter.Tip() + 1
		e.getter.SetTip(tip)
		time.Sleep(delta)
		gctx, gcancel := context.WithTimeout(ctx, time.Hour)
		_ = e.sub.deliver(gctx, chain.At(tip))
		gcancel()
		if !e.quiesce(400) {
			res.failf("HARNESS: no quiescence after healing")
			return
		}
		if v := e.storeIsCanonicalRun(); v != "" {
			res.failf("after healing: %s", v)
			return
		}
		if sh, err := e.st.Head(ctx); err != nil || sh.H != tip {
			res.failf("after healing: the store head is (%v, %v), the network is at %d (state %+v)", sh, err, tip, e.syncer.State())
			return
		}
		synctest.Wait()
	})
	return res
}

// The scenario type is shared with C03's event engine through a discriminator (see SyncScenario.Sched).
func TestC03Sched(t *testing.T) {
	check(t, "C03", func(rt *rapid.T) SyncScenario {
		sc := genSyncSched(rt)
		return SyncScenario{Sched: &sc}
	}, runC03)
}

// c03EnumConfigs: tiny configurations whose schedules are enumerated completely.
//
//	0: store [1,2], network at 5; the tip is gossiped (sync of 3..5 starts), then a twin of height 3 is gossiped
//	1: store [1,2], network at 3; header 3 is gossiped while a Head() caller runs
//	2: store [1,2], network at 5; headers 4 and 5 are gossiped concurrently
//	3: store [1,2], network at 4; the tip is gossiped, then a Head() caller runs (racing the sync)
//	4: store [1,2], network at 5; the tip and a forged header of height 4 are gossiped concurrently
//	5: store [1,2], network at 5; header 4 is gossiped, then header 5; the getter fails the first range request
//	6: store [1,2], network at 4, trust span 1; two concurrent Head() callers (shared request, bifurcation)
//	7: store [1,2], network at 5 and still recent; the tip is gossiped, then two Head() callers one after the other
//	   (answered from the subjective head while the sync runs: the second must not fall below the first)
//	8: store [1,2], network at 6; the tip and a forged header of height 5 are gossiped concurrently (the
//	   bifurcation for the forged one stores 3 and 4 while the sync's range request for 3..5 is in flight)
var c03EnumConfigs = []SyncSchedScenario{
	{Prefill: 2, Net: 3, Actors: []SchedActor{{Kind: "gossip", K: 3}, {Kind: "gossip", K: 1, Adv: "twin", After: 1}}},
	{Prefill: 2, Net: 1, Actors: []SchedActor{{Kind: "gossip", K: 1}, {Kind: "head"}}},
	{Prefill: 2, Net: 3, Actors: []SchedActor{{Kind: "gossip", K: 2}, {Kind: "gossip", K: 3}}},
	{Prefill: 2, Net: 2, Actors: []SchedActor{{Kind: "gossip", K: 2}, {Kind: "head", After: 1}}},
	{Prefill: 2, Net: 3, Actors: []SchedActor{{Kind: "gossip", K: 3}, {Kind: "gossip", K: 2, Adv: "forged"}}},
	{Prefill: 2, Net: 3, RangeErrs: 1, Actors: []SchedActor{{Kind: "gossip", K: 2}, {Kind: "gossip", K: 3, After: 1}}},
	{Prefill: 2, Net: 2, Span: 1, Actors: []SchedActor{{Kind: "head"}, {Kind: "head"}}},
	{Prefill: 2, Net: 3, Fresh: true, Actors: []SchedActor{{Kind: "gossip", K: 3}, {Kind: "head", After: 1}, {Kind: "head", After: 2}}},
	{Prefill: 2, Net: 4, Actors: []SchedActor{{Kind: "gossip", K: 4}, {Kind: "gossip", K: 3, Adv: "forged"}}},
}

func TestC03Enum(t *testing.T) {
	cfgs := make([]SyncScenario, len(c03EnumConfigs))
	for i := range c03EnumConfigs {
		c := c03EnumConfigs[i]
		cfgs[i] = SyncScenario{Sched: &c}
	}
	runEnum(t, "C03", cfgs, func(s SyncScenario, tape []int) SyncScenario {
		c := *s.Sched
		c.Tape, c.Canonical = tape, true
		return SyncScenario{Sched: &c}
	}, runC03, map[int]bool{0: true, 1: true, 3: true, 4: true, 5: true, 7: true, 8: true})
}

// TestC07Sched runs the schedule engine for C07: honest deliveries and Head() callers only (plus getter
// faults), judged by the catch-up clauses - without a getter error the store reaches the newest head the
// Syncer took, and after an error the next learned head resumes the sync.
func TestC07Sched(t *testing.T) {
	check(t, "C07", func(rt *rapid.T) SyncScenario {
		sc := genSyncSched(rt)
		for i := range sc.Actors {
			if sc.Actors[i].Adv != "" {
				sc.Actors[i].Adv = ""
			}
		}
		return SyncScenario{Sched: &sc}
	}, runC07)
}

// TestC07Enum enumerates the honest configurations (1, 2, 3, 5 of c03EnumConfigs) for C07.
func TestC07Enum(t *testing.T) {
	var cfgs []SyncScenario
	for i := range c03EnumConfigs {
		c := c03EnumConfigs[i]
		// (the two concurrent Head() callers with bifurcation, 36 million schedules, are enumerated once, under C03)
		honest := c.Span == 0
		for _, a := range c.Actors {
			if a.Adv != "" {
				honest = false
			}
		}
		if honest {
			cfgs = append(cfgs, SyncScenario{Sched: &c})
		}
	}
	// quick: all but the two big ones (two concurrent gossips; two Head() callers with bifurcation)
	quick := map[int]bool{}
	for i, c := range cfgs {
		if !(len(c.Sched.Actors) == 2 && c.Sched.Actors[0].Kind == c.Sched.Actors[1].Kind && c.Sched.Actors[1].After == 0) {
			quick[i] = true
		}
	}
	runEnum(t, "C07", cfgs, func(s SyncScenario, tape []int) SyncScenario {
		c := *s.Sched
		c.Tape, c.Canonical = tape, true
		return SyncScenario{Sched: &c}
	}, runC07, quick)
}
