package props

import (
	"errors"
	"fmt"
	"strings"
	"sync"
	"testing"
	"testing/synctest"
	"time"

	header "github.com/celestiaorg/go-header"
	"github.com/celestiaorg/go-header/store"
	"pgregory.net/rapid"

	"verif/harness/evid"
	"verif/harness/memds"
	"verif/harness/vh"
)

// C06 — Store survives restart and crash without loss or dangling head/tail pointers.

type C06Scenario struct {
	Cfg  StoreCfg  `json:"cfg"`
	Base uint64    `json:"base"`
	Ops  []StoreOp `json:"ops"`
	// fault engine only: N consecutive failing writes starting at write attempt I
	FaultAt int `json:"fault_at,omitempty"`
	FaultN  int `json:"fault_n,omitempty"`
	// FaultOp > 0: the window is armed right before operation number FaultOp-1 instead of at the start, so that
	// FaultAt counts the write attempts of that operation (a deletion, mostly)
	FaultOp int `json:"fault_op,omitempty"`
	// ForkCont: the continuation appended to every reopened image is a different branch on top of the surviving
	// head (what a head-side deletion is for), after a reader has waited briefly for the next height
	ForkCont bool `json:"fork_cont,omitempty"`
}

var c06OpKinds = []string{
	"append_next", "append_next", "append_next", "append_next", "append_gap", "append_fill", "sync",
	"delete_prefix", "delete_prefix", "delete_suffix", "delete_whole", "restart_new", "restart_stopstart", "stop_during_sync",
	"read", "read", "append_empty",
}

func genC06(t *rapid.T) C06Scenario {
	s := C06Scenario{Cfg: genStoreCfg(t), Base: rapid.SampledFrom([]uint64{1, 1, 7}).Draw(t, "base")}
	if s.Cfg.StoreCache == 1 {
		s.Cfg.StoreCache = 2
	}
	if s.Cfg.IndexCache == 1 {
		s.Cfg.IndexCache = 2
	}
	n := rapid.IntRange(3, 18).Draw(t, "nops")
	for i := 0; i < n; i++ {
		s.Ops = append(s.Ops, genStoreOp(t, c06OpKinds))
	}
	s.ForkCont = rapid.IntRange(0, 2).Draw(t, "forkcont") == 0
	return s
}

func genC06Faults(t *rapid.T) C06Scenario {
	s := genC06(t)
	s.FaultAt = rapid.IntRange(0, 16).Draw(t, "fault_at")
	s.FaultN = rapid.SampledFrom([]int{1, 2, 3, 5}).Draw(t, "fault_n")
	// half of the time aim at one operation of the history, preferably a deletion
	if rapid.Bool().Draw(t, "aim") {
		var dels []int
		for i, op := range s.Ops {
			if strings.HasPrefix(op.Op, "delete_") {
				dels = append(dels, i)
			}
		}
		if len(dels) > 0 && rapid.IntRange(0, 3).Draw(t, "aim_delete") > 0 {
			s.FaultOp = 1 + rapid.SampledFrom(dels).Draw(t, "fault_op_del")
		} else {
			s.FaultOp = 1 + rapid.IntRange(0, len(s.Ops)-1).Draw(t, "fault_op")
		}
		s.FaultAt = rapid.IntRange(0, 8).Draw(t, "fault_at_rel")
	}
	return s
}

// c06Deletion is a DeleteRange as seen in the commit log.
type c06Deletion struct {
	from, to   uint64
	start, end int // log positions when it was called / when it returned
}

// c06History is what phase A leaves behind.
type c06History struct {
	log  []memds.Entry
	dels []c06Deletion
}

// mustRetrievable computes, for the image log[:p], the heights that the statement requires to be
// retrievable: contained in a batch commit <= p and not inside the range of any DeleteRange started
// at or before p.
func (h *c06History) mustRetrievable(p int, chain *vh.Chain) map[uint64]bool {
	must := map[uint64]bool{}
	for i := 0; i < p; i++ {
		// a deletion that starts at this position removes its range from the demand
		for _, d := range h.dels {
			if d.start == i {
				for x := d.from; x < d.to; x++ {
					delete(must, x)
				}
			}
		}
		e := h.log[i]
		if !e.Batch {
			continue
		}
		for _, op := range e.Ops {
			if op.Del {
				continue
			}
			name := strings.TrimPrefix(op.Key, storePrefix+"/")
			if name == "head" || name == "tail" || isDigits(name) {
				continue
			}
			hd := new(vh.Header)
			if hd.UnmarshalBinary(op.Val) != nil || !chain.IsCanonical(hd) {
				continue
			}
			// commits made while a deletion is running (its initial Sync) do not re-demand its range
			inRunningDelete := false
			for _, d := range h.dels {
				if i >= d.start && i < d.end && hd.H >= d.from && hd.H < d.to {
					inRunningDelete = true
				}
			}
			if !inRunningDelete {
				must[hd.H] = true
			}
		}
	}
	for _, d := range h.dels {
		if d.start <= p && d.start >= p { // started exactly at p (nothing of it written yet) — still "started"
			for x := d.from; x < d.to; x++ {
				delete(must, x)
			}
		}
	}
	return must
}

// c06RunHistory executes the history (phase A). Errors of operations are tolerated when faults are armed.
func c06RunHistory(s C06Scenario, e *storeEnv, res *Result, faults bool) (hist *c06History, labels map[string]bool) {
	labels = map[string]bool{}
	hist = &c06History{}
	ctx, cancel := vctx(24 * time.Hour)
	defer cancel()
	fail := func(f string, a ...any) { res.failf(f, a...) }
	sinceSync := false
	for i, op := range s.Ops {
		tag := fmt.Sprintf("op#%d %s", i, op.Op)
		if faults && s.FaultOp == i+1 {
			synctest.Wait() // earlier appends have reached the datastore: the window counts this operation's writes
			e.mem.SetFaults(s.FaultAt, s.FaultN)
		}
		switch op.Op {
		case "append_next", "append_gap", "append_fill":
			hs := resolveAppend(e.m, op, s.Base)
			if hs == nil {
				continue
			}
			if err := e.st.Append(ctx, e.chain.Range(hs[0], hs[len(hs)-1]+1)...); err != nil {
				fail("%s: Append failed: %v", tag, err)
				return
			}
			e.m.appendBatch(hs)
			sinceSync = true
		case "append_empty":
			if err := e.st.Append(ctx); err != nil {
				fail("%s: Append without headers failed: %v", tag, err)
				return
			}
		case "read":
			// read everything that is stored by height and by hash: fills the header and index caches
			for _, h := range e.m.heights() {
				c1, cn := vctx(time.Second)
				if g, err := e.st.GetByHeight(c1, h); err == nil {
					_, _ = e.st.Get(c1, g.Hash())
				}
				cn()
			}
		case "sync":
			if err := e.st.Sync(ctx); err != nil && !faults {
				fail("%s: Sync failed: %v", tag, err)
				return
			}
			sinceSync = false
		case "delete_prefix", "delete_suffix", "delete_whole":
			if faults {
				// under write faults the model may be out of step: re-anchor on what the store reports
				synctest.Wait()
				hd, herr := e.st.Head(ctx)
				tl, terr := e.st.Tail(ctx)
				if herr != nil || terr != nil {
					continue
				}
				e.m.has, e.m.H, e.m.T = true, hd.H, tl.H
			}
			from, to := resolveDelete(e.m, op, s.Base)
			valid, _ := e.m.deleteValid(from, to)
			d := c06Deletion{from: from, to: to, start: e.mem.LogLen()}
			err := e.st.DeleteRange(ctx, from, to)
			d.end = e.mem.LogLen()
			if valid {
				hist.dels = append(hist.dels, d)
				labels["delete"] = true
			}
			if !faults {
				if valid && err != nil {
					fail("%s: DeleteRange(%d,%d) failed: %v", tag, from, to, err)
					return
				}
				if valid {
					e.m.deleteRange(from, to)
				}
			} else if valid && err == nil {
				e.m.deleteRange(from, to)
			} else if valid {
				for x := from; x < to; x++ {
					delete(e.m.stored, x)
				}
			}
			sinceSync = false
		case "stop_during_sync":
			// Stop arrives while a Sync request is in flight and the flush loop is still busy with an
			// Append: whichever of the two the loop serves first, everything appended before must survive.
			hs := resolveAppend(e.m, StoreOp{Op: "append_next", N: op.N}, s.Base)
			if hs == nil || faults {
				continue
			}
			gate := make(chan struct{})
			var once sync.Once
			parked := make(chan struct{})
			store.VerifSetYield(func(p string) {
				if p == "flush:advanced" {
					once.Do(func() {
						close(parked)
						<-gate
					})
				}
			})
			if err := e.st.Append(ctx, e.chain.Range(hs[0], hs[len(hs)-1]+1)...); err != nil {
				store.VerifSetYield(nil)
				fail("%s: Append failed: %v", tag, err)
				return
			}
			e.m.appendBatch(hs)
			<-parked
			syncDone := make(chan error, 1)
			stopDone := make(chan error, 1)
			go func() { syncDone <- e.st.Sync(ctx) }()
			go func() {
				c2, cn := vctx(time.Hour)
				defer cn()
				stopDone <- e.st.Stop(c2)
			}()
			synctest.Wait()
			store.VerifSetYield(nil)
			close(gate)
			if err := <-stopDone; err != nil {
				fail("%s: Stop failed: %v", tag, err)
				return
			}
			<-syncDone
			labels["stop_during_sync"] = true
			e.st = nil
			if err := e.open(ctx); err != nil {
				fail("%s: reopening after Stop failed: %v", tag, err)
				return
			}
			sinceSync = false
			synctest.Wait()
			if v := e.checkStore(tag + " (restart after Stop raced a Sync)"); v != "" {
				fail("%s", v)
				return
			}
		case "restart_new", "restart_stopstart":
			if sinceSync {
				labels["stop_right_after_append"] = true
			}
			c2, cn := vctx(time.Hour)
			err := e.st.Stop(c2)
			cn()
			if err != nil {
				fail("%s: Stop failed: %v", tag, err)
				return
			}
			if op.Op == "restart_new" {
				e.st = nil
				if err := e.open(ctx); err != nil {
					fail("%s: reopening after a clean Stop failed: %v", tag, err)
					return
				}
			} else if err := startScoped(e.st.Start); err != nil {
				fail("%s: Start after Stop failed: %v", tag, err)
				return
			}
			sinceSync = false
			if !faults {
				// oracle (a): same Head, Tail and headers as before Stop, incl. everything appended before it
				synctest.Wait()
				if v := e.checkStore(tag + " (clean restart)"); v != "" {
					fail("%s", v)
					return
				}
			}
		}
	}
	synctest.Wait()
	hist.log = e.mem.Log()
	return hist, labels
}

// c06CheckImage opens a fresh Store on the image and applies oracle (b).
func c06CheckImage(cfg StoreCfg, img *memds.Mem, chain *vh.Chain, must map[uint64]bool, tag string, forkCont ...bool) string {
	ctx, cancel := vctx(24 * time.Hour)
	defer cancel()
	st, err := store.NewStore[*vh.Header](memds.Wrap(img, cfg.CtxAware), cfg.opts()...)
	if err != nil {
		return fmt.Sprintf("%s: NewStore: %v", tag, err)
	}
	if err := startScoped(st.Start); err != nil {
		return fmt.Sprintf("%s: Start on the surviving data failed: %v", tag, err)
	}
	defer func() {
		c2, cn := vctx(time.Hour)
		_ = st.Stop(c2)
		cn()
	}()
	getH := func(h uint64) *vh.Header {
		c1, cn := vctx(time.Second)
		defer cn()
		g, err := st.GetByHeight(c1, h)
		if err != nil || g == nil || g.H != h || !chain.IsCanonical(g) {
			return nil
		}
		g2, err := st.Get(c1, g.Hash())
		if err != nil || !vh.Equal(g, g2) {
			return nil
		}
		return g
	}
	head, herr := st.Head(ctx)
	tail, terr := st.Tail(ctx)
	if herr != nil && !errors.Is(herr, header.ErrEmptyStore) {
		return fmt.Sprintf("%s: Head: %v", tag, herr)
	}
	if terr != nil && !errors.Is(terr, header.ErrEmptyStore) {
		return fmt.Sprintf("%s: Tail: %v", tag, terr)
	}
	if herr == nil && getH(head.H) == nil {
		return fmt.Sprintf("%s: Head %d does not resolve to a stored header", tag, head.H)
	}
	if terr == nil && getH(tail.H) == nil {
		return fmt.Sprintf("%s: Tail %d does not resolve to a stored header", tag, tail.H)
	}
	if herr == nil && terr == nil {
		if tail.H > head.H {
			return fmt.Sprintf("%s: Tail %d > Head %d", tag, tail.H, head.H)
		}
		for h := tail.H; h <= head.H; h++ {
			if getH(h) == nil {
				return fmt.Sprintf("%s: height %d between Tail %d and Head %d is not retrievable", tag, h, tail.H, head.H)
			}
		}
	}
	for h := range must {
		if getH(h) == nil {
			return fmt.Sprintf("%s: header %d of a committed batch (not deleted later) is not retrievable", tag, h)
		}
	}
	// continuation
	var from uint64
	if herr == nil {
		from = head.H + 1
	} else {
		byHash, _, _ := rawScan(img, chain)
		for h := range byHash {
			if h >= from {
				from = h + 1
			}
		}
		if from == 0 {
			from = 1
		}
	}
	const k = 3
	if from+k >= uint64(len(chain.Headers)) {
		return ""
	}
	cont := chain.Range(from, from+k)
	aboveHead := false // something the caller is entitled to is stored above Head (gapped appends): no other branch then
	for h := range must {
		if h >= from {
			aboveHead = true
		}
	}
	if len(forkCont) > 0 && forkCont[0] && from > 1 && !aboveHead {
		// a reader waits for the next heights until its context ends (it may be served a leftover of an interrupted
		// head-side deletion: the statement does not speak about those), then another branch is appended
		for h := from; h < from+k; h++ {
			c1, cn := vctx(10 * time.Millisecond)
			_, _ = st.GetByHeight(c1, h)
			cn()
		}
		prev := chain.At(from - 1)
		if herr == nil {
			prev = head
		}
		cont = nil
		for i := 0; i < k; i++ {
			h := &vh.Header{Chain: prev.Chain, H: prev.H + 1, T: prev.T + int64(time.Second), Prev: prev.Hash(), Span: prev.Span, Salt: 4242}
			h.Seal()
			cont = append(cont, h)
			prev = h
		}
		tag += " (continuation on another branch)"
		inner := getH
		getH = func(h uint64) *vh.Header {
			if h < from || h >= from+k {
				return inner(h)
			}
			c1, cn := vctx(time.Second)
			defer cn()
			want := cont[h-from]
			g, err := st.GetByHeight(c1, h)
			if err != nil || !vh.Equal(g, want) {
				return nil
			}
			g2, err := st.Get(c1, want.Hash())
			if err != nil || !vh.Equal(g2, want) {
				return nil
			}
			return g
		}
	}
	if err := st.Append(ctx, cont...); err != nil {
		return fmt.Sprintf("%s: Append of the continuation failed: %v", tag, err)
	}
	if err := st.Sync(ctx); err != nil {
		return fmt.Sprintf("%s: Sync after the continuation failed: %v", tag, err)
	}
	nh, err := st.Head(ctx)
	if err != nil {
		return fmt.Sprintf("%s: Head after the continuation: %v", tag, err)
	}
	if nh.H < from+k-1 {
		return fmt.Sprintf("%s: Head is %d after appending the continuation %d..%d", tag, nh.H, from, from+k-1)
	}
	nt, err := st.Tail(ctx)
	if err != nil {
		return fmt.Sprintf("%s: Tail after the continuation: %v", tag, err)
	}
	for h := nt.H; h <= nh.H; h++ {
		if getH(h) == nil {
			return fmt.Sprintf("%s: after the continuation height %d in [Tail %d, Head %d] is not retrievable", tag, h, nt.H, nh.H)
		}
	}
	if getH(nh.H+1) != nil {
		return fmt.Sprintf("%s: after the continuation Head is %d although %d is stored too", tag, nh.H, nh.H+1)
	}
	return ""
}

func runC06(t *testing.T, s C06Scenario) (res Result) {
	col := evid.For("C06")
	bubble(t, func() {
		e := newStoreEnv(s.Cfg, storeChainLen)
		ctx, cancel := vctx(24 * time.Hour)
		defer cancel()
		if err := e.open(ctx); err != nil {
			res.failf("opening a fresh store failed: %v", err)
			return
		}
		hist, labels := c06RunHistory(s, e, &res, false)
		if e.st != nil {
			c2, cn := vctx(time.Hour)
			_ = e.st.Stop(c2)
			cn()
		}
		if res.Verdict != "" || hist == nil {
			return
		}
		// phase B: every prefix of the commit log is a crash point
		insideDelete, betweenFlushes := false, false
		for p := 0; p <= len(hist.log); p++ {
			for _, d := range hist.dels {
				if p > d.start && p < d.end {
					insideDelete = true
				}
			}
			must := hist.mustRetrievable(p, e.chain)
			if v := c06CheckImage(s.Cfg, memds.FromImage(hist.log[:p]), e.chain, must, fmt.Sprintf("crash image at commit-log prefix %d/%d", p, len(hist.log)), s.ForkCont); v != "" {
				res.failf("%s", v)
				res.Obs = map[string]any{"log_len": len(hist.log), "prefix": p, "deletions": fmt.Sprint(hist.dels)}
				return
			}
		}
		col.AddExtra("crash_images_checked", int64(len(hist.log)+1))
		nb := 0
		for _, en := range hist.log {
			if en.Batch {
				nb++
			}
		}
		betweenFlushes = nb >= 2 && labels["stop_right_after_append"]
		res.NonTrivial = insideDelete || betweenFlushes
		if insideDelete {
			res.label("crash_point_inside_delete")
		}
		if labels["stop_during_sync"] {
			res.label("stop_raced_a_sync")
			res.NonTrivial = true
		}
		if betweenFlushes {
			res.label("crash_between_flushes_with_acked_unflushed")
		}
		if s.Cfg.CtxAware {
			res.label("ctx_aware_datastore")
		}
	})
	return res
}

// runC06Faults: the same histories on a datastore that fails N consecutive writes.
func runC06Faults(t *testing.T, s C06Scenario) (res Result) {
	col := evid.For("C06")
	bubble(t, func() {
		e := newStoreEnv(s.Cfg, storeChainLen)
		ctx, cancel := vctx(24 * time.Hour)
		defer cancel()
		if err := e.open(ctx); err != nil {
			res.failf("opening a fresh store failed: %v", err)
			return
		}
		if s.FaultOp == 0 {
			e.mem.SetFaults(s.FaultAt, s.FaultN)
		}
		hist, _ := c06RunHistory(s, e, &res, true)
		failed := e.mem.FailedWrites()
		e.mem.ClearFaults()
		if res.Verdict != "" || hist == nil {
			if e.st != nil {
				c2, cn := vctx(time.Hour)
				_ = e.st.Stop(c2)
				cn()
			}
			return
		}
		// faults are over: let the flush loop finish its retries
		serr := e.st.Sync(ctx)
		synctest.Wait()
		hist.log = e.mem.Log()
		// crash now (image of the surviving data) ...
		must := hist.mustRetrievable(len(hist.log), e.chain)
		if v := c06CheckImage(s.Cfg, memds.FromImage(hist.log), e.chain, must, "image after transient write failures", s.ForkCont); v != "" {
			res.failf("%s", v)
		}
		// ... and a clean stop
		c2, cn := vctx(time.Hour)
		_ = e.st.Stop(c2)
		cn()
		if res.Verdict == "" {
			hist.log = e.mem.Log()
			must = hist.mustRetrievable(len(hist.log), e.chain)
			if v := c06CheckImage(s.Cfg, memds.FromImage(hist.log), e.chain, must, "clean stop after transient write failures", s.ForkCont); v != "" {
				res.failf("%s", v)
			}
		}
		res.Obs = map[string]any{"failed_writes": failed, "sync_err": fmt.Sprint(serr), "deletions": fmt.Sprint(hist.dels)}
		col.AddExtra("fault_placements_checked", 1)
		coversBatch := failed > 0
		res.NonTrivial = coversBatch
		if coversBatch {
			res.label("fault_window_hit_writes")
		} else {
			res.label("fault_window_missed")
		}
	})
	return res
}

func TestC06(t *testing.T)       { check(t, "C06", genC06, runC06) }
func TestC06Replay(t *testing.T) { replayC06(t) }
func TestC06Faults(t *testing.T) { check(t, "C06", genC06Faults, runC06Faults) }

func replayC06(t *testing.T) {
	replay(t, "C06", func(t *testing.T, s C06Scenario) Result {
		if s.FaultN > 0 {
			return runC06Faults(t, s)
		}
		return runC06(t, s)
	})
}
