package props

import (
	"bytes"
	"context"
	"fmt"
	"strconv"
	"strings"
	"sync"
	"testing"
	"testing/synctest"
	"time"

	hsync "github.com/celestiaorg/go-header/sync"
	"pgregory.net/rapid"

	"verif/harness/vh"
)

// C03 — Syncer only ever stores one contiguous chain of verified headers.
// C07 — With an honest getter the Syncer reaches every verified target; errors delay it.
// Both run on the same simulator; C07 draws valid traffic only, C03 mixes adversarial gossip in.

type SyncEvent struct {
	Ev   string `json:"ev"` // grow | gossip | head | sleep | policy | quiesce
	K    int    `json:"k,omitempty"`
	Kind string `json:"kind,omitempty"` // gossip kind
	// policy
	RangeMax   int `json:"range_max,omitempty"`
	RangeErrs  int `json:"range_errs,omitempty"`
	RangeDelay int `json:"range_delay_ms,omitempty"`
}

type SyncScenario struct {
	Prefill int         `json:"prefill"` // headers already in the store (0 = empty: subjective initialisation)
	Tip0    int         `json:"tip0"`    // network head at start
	Events  []SyncEvent `json:"events"`
	// Lenient: the header type's own Verify does not look at heights at or below the trusted one (like a type
	// that only checks signatures and the hash link); refusing such headers is then entirely the library's job
	Lenient bool `json:"lenient,omitempty"`
	// SoftType: the header type reports every rejection of its own as soft, also for adjacent headers (the
	// Syncer then tries to bifurcate with nothing in between)
	SoftType bool `json:"soft_type,omitempty"`
	// ErrKind: what the getter's injected range failures look like (see simGetter.ErrKind)
	ErrKind int `json:"err_kind,omitempty"`
	// TwinFirst > 0 ends the history (C03 only) with the terminal event "twin_first": an equivocating twin of the
	// coming tip, TwinFirst+1 heights above the store head, is accepted over gossip while a Head() request
	// answering the canonical header of that height is in flight. Either may keep the height - never both.
	TwinFirst int `json:"twin_first,omitempty"`
	// TwinLate: the Head() answer arrives after the twin has been synced (2 s against 300 ms of virtual time)
	TwinLate bool `json:"twin_late,omitempty"`
	// TwinMid > 0: the range answer takes 1 s, store writes take 50 ms each and the Head() answer arrives
	// TwinMid ms after the range answer - while the synced range or the twin itself is being written
	TwinMid int `json:"twin_mid_ms,omitempty"`
	// Sched, when set, selects the schedule engine (c03sched_test.go); the other fields are unused then.
	Sched *SyncSchedScenario `json:"sched,omitempty"`
}

var validGossip = []string{"tip", "tip", "tip", "skip", "dup", "mid"}
var advGossip = []string{vh.AdvForged, vh.AdvForged, vh.AdvForked, vh.AdvWrongChain, vh.AdvFuture, vh.AdvTimeRegress, "stale", "stale_fresh", "stale_fresh", "forged_far", "forged_adjacent", "bad_validate_ok"}

func genSyncEvent(t *rapid.T, adversarial bool) SyncEvent {
	switch rapid.IntRange(0, 11).Draw(t, "evclass") {
	case 0, 1, 2:
		return SyncEvent{Ev: "grow", K: rapid.SampledFrom([]int{1, 1, 2, 3, 5, 30, 70, 150}).Draw(t, "k")}
	case 3, 4, 5, 6:
		kinds := validGossip
		if adversarial && rapid.Bool().Draw(t, "adv") {
			kinds = advGossip
		}
		return SyncEvent{Ev: "gossip", Kind: rapid.SampledFrom(kinds).Draw(t, "kind"), K: rapid.IntRange(1, 8).Draw(t, "gk")}
	case 7:
		if rapid.Bool().Draw(t, "burst") {
			return SyncEvent{Ev: "burst", K: rapid.IntRange(2, 8).Draw(t, "n"), Kind: rapid.SampledFrom([]string{"head", "gossip", "mixed"}).Draw(t, "bkind"),
				RangeDelay: rapid.SampledFrom([]int{0, 10}).Draw(t, "hdelay")}
		}
		return SyncEvent{Ev: "head"}
	case 8:
		if adversarial && rapid.Bool().Draw(t, "headrace") {
			switch rapid.IntRange(0, 2).Draw(t, "twin") {
			case 0:
				return SyncEvent{Ev: "twin_race"}
			case 1:
				return SyncEvent{Ev: "handoff_race", K: rapid.IntRange(1, 6).Draw(t, "hok"), RangeDelay: rapid.SampledFrom([]int{100, 500}).Draw(t, "hodelay")}
			}
			return SyncEvent{Ev: "head_race", K: rapid.IntRange(0, 5).Draw(t, "hk"), RangeDelay: rapid.SampledFrom([]int{100, 500, 1500}).Draw(t, "hdelay")}
		}
		return SyncEvent{Ev: "sleep", K: rapid.SampledFrom([]int{100, 1000, 4000, 20000}).Draw(t, "ms")}
	case 9, 10:
		return SyncEvent{Ev: "policy",
			RangeMax:   rapid.SampledFrom([]int{0, 0, 1, 2, 7, 63}).Draw(t, "rmax"),
			RangeErrs:  rapid.SampledFrom([]int{0, 0, 1, 2, 3}).Draw(t, "rerrs"),
			RangeDelay: rapid.SampledFrom([]int{0, 0, 50, 500, 3000}).Draw(t, "rdelay")}
	default:
		return SyncEvent{Ev: "quiesce"}
	}
}

func genSync(adversarial bool) func(t *rapid.T) SyncScenario {
	return func(t *rapid.T) SyncScenario {
		s := SyncScenario{
			Prefill: rapid.SampledFrom([]int{0, 0, 1, 5, 40}).Draw(t, "prefill"),
			Tip0:    rapid.SampledFrom([]int{1, 2, 10, 60, 130}).Draw(t, "tip0"),
			Lenient: adversarial && rapid.IntRange(0, 2).Draw(t, "lenient") == 0,
		}
		s.SoftType = adversarial && rapid.IntRange(0, 3).Draw(t, "softtype") == 0
		s.ErrKind = rapid.SampledFrom([]int{0, 0, 1, 2, 3}).Draw(t, "errkind")
		if s.Prefill > s.Tip0 {
			s.Prefill = s.Tip0
		}
		n := rapid.IntRange(5, 40).Draw(t, "nevents")
		for i := 0; i < n; i++ {
			s.Events = append(s.Events, genSyncEvent(t, adversarial))
		}
		if adversarial {
			s.TwinFirst = rapid.SampledFrom([]int{0, 0, 0, 1, 2, 3, 6}).Draw(t, "twinfirst")
			s.TwinLate = s.TwinFirst > 0 && rapid.Bool().Draw(t, "twinlate")
			if s.TwinFirst > 0 && !s.TwinLate {
				s.TwinMid = rapid.SampledFrom([]int{0, 0, 20, 70, 120}).Draw(t, "twinmid")
			}
		}
		return s
	}
}

const syncChainLen = 1500

type syncObs struct {
	Acked      []uint64 `json:"acked"`
	AdvRefused int      `json:"adv_refused"`
	GetterErrs int      `json:"getter_errors_hit"`
	Log        []string `json:"log"`
}

// runSync executes the scenario; checkLiveness selects the C07 oracle, checkSafety the C03 one (both may be on).
func runSync(t *testing.T, s SyncScenario, c03 bool) (res Result) {
	bubble(t, func() {
		delta := time.Second
		var flags uint8
		if s.Lenient {
			flags = vh.FlagLenientOrder
		}
		if s.SoftType {
			flags |= vh.FlagSoftType
		}
		chain := newSyncChain("sync", syncChainLen, uint64(s.Tip0), delta, nil, flags)
		e, err := newSyncEnv(chain, uint64(s.Tip0), delta, nil,
			hsync.WithBlockTime(delta), hsync.WithTrustingPeriod(10_000*time.Hour),
			hsync.WithSyncFromHeight(1), hsync.WithPruningWindow(10_000*time.Hour))
		if err != nil {
			res.failf("HARNESS: %v", err)
			return
		}
		defer e.stop()
		e.getter.set(func() { e.getter.ErrKind = s.ErrKind })
		ctx, cancel := vctx(1000 * time.Hour)
		defer cancel()
		if s.Prefill > 0 {
			if err := e.st.Append(ctx, chain.Range(1, uint64(s.Prefill)+1)...); err != nil {
				res.failf("HARNESS: prefill: %v", err)
				return
			}
			_ = e.st.Sync(ctx)
		}
		obs := &syncObs{}
		res.Obs = obs
		logf := func(f string, a ...any) { obs.Log = append(obs.Log, fmt.Sprintf(f, a...)) }
		if err := e.startSyncer(ctx); err != nil {
			res.failf("Syncer.Start failed with an honest, healthy getter: %v", err)
			return
		}
		var maxAcked uint64
		learnedAt := 0 // number of getter calls made before the newest head was learned
		_ = learnedAt
		callsBeforeEvent := 0
		var learnedMs, msBeforeEvent int64
		nowMs := func() int64 { return time.Since(vh.Epoch).Milliseconds() }
		ack := func(h uint64) {
			obs.Acked = append(obs.Acked, h)
			if h > maxAcked {
				maxAcked = h
				learnedAt = callsBeforeEvent // the sync it triggers may already have run when the call returns
				learnedMs = msBeforeEvent
			}
		}
		// caughtUp is the C07 demand at a quiescent point: unless a getter error aborted a sync after the
		// newest head was learned (then only the next learned head resumes it), the store has reached
		// the newest head the Syncer acknowledged - including heads learned while a sync was running.
		caughtUp := func(tag string) bool {
			errorSince := false
			for _, c := range e.getter.Calls() {
				// a range request that failed at or after the moment the newest head was learned (it may
				// have been started before) aborted a sync that the newest head cannot have re-triggered yet
				if c.Method == "GetRangeByHeight" && c.Err != "" && c.EndAt >= learnedMs {
					errorSince = true
				}
			}
			sh, err := e.st.Head(ctx)
			if err != nil {
				res.failf("%s: store head: %v", tag, err)
				return false
			}
			if errorSince && sh.H < maxAcked {
				// a getter error aborted the attempt and nothing has resumed it yet: State() reports it
				if st := e.syncer.State(); st.Error == "" {
					res.failf("%s: a getter error aborted the sync towards %d (store head %d) but State() reports no error: %+v", tag, maxAcked, sh.H, st)
					return false
				}
				return true
			}
			if errorSince {
				return true
			}
			if sh.H < maxAcked {
				res.failf("%s: at quiescence, without any getter error since the head %d was learned, the store head is %d (state %+v)", tag, maxAcked, sh.H, e.syncer.State())
				return false
			}
			st := e.syncer.State()
			if !st.Finished() || st.Error != "" {
				res.failf("%s: at quiescence without getter errors State() = %+v, want finished without error", tag, st)
				return false
			}
			return true
		}
		// Start learned the network head
		if hd, err := e.syncer.Head(ctx); err == nil {
			ack(hd.H)
		}
		advSeen := map[string]bool{}
		var advHashes []string
		whileSyncing, advWhileSyncing, errHit, shortPrefix, learnedWhileSyncing, concurrentBurst := false, false, false, false, false, false
		lastStoreHead := uint64(0)

		checkSafety := func(tag string) bool {
			if v := e.storeIsCanonicalRun(); v != "" {
				res.failf("%s: %s", tag, v)
				return false
			}
			hd, err := e.st.Head(ctx)
			if err == nil {
				if hd.H < lastStoreHead {
					res.failf("%s: store head went back from %d to %d (partial progress lost)", tag, lastStoreHead, hd.H)
					return false
				}
				lastStoreHead = hd.H
			}
			st := e.syncer.State()
			for _, ah := range advHashes {
				if fmtHash(st.ToHash) == ah {
					res.failf("%s: a refused gossip header became the sync target (State().ToHash)", tag)
					return false
				}
			}
			return true
		}

		for i, ev := range s.Events {
			tag := fmt.Sprintf("event#%d %s/%s", i, ev.Ev, ev.Kind)
			if e.getter.Tip() > syncChainLen-400 {
				break // keep room on the pre-built chain for the remaining events and the final phase
			}
			syncing := e.getter.Outstanding() > 0 || !e.syncer.State().Finished()
			callsBeforeEvent = len(e.getter.Calls())
			msBeforeEvent = nowMs()
			switch ev.Ev {
			case "grow":
				e.grow(ev.K)
			case "sleep":
				time.Sleep(time.Duration(ev.K) * time.Millisecond)
			case "policy":
				e.getter.set(func() {
					e.getter.RangeMax, e.getter.RangeErrs = ev.RangeMax, ev.RangeErrs
					e.getter.RangeDelay = time.Duration(ev.RangeDelay) * time.Millisecond
				})
				if ev.RangeMax > 0 {
					shortPrefix = true
				}
			case "quiesce":
				if !e.quiesce(600) {
					res.failf("HARNESS: no quiescence at %s", tag)
					return
				}
				if !checkSafety(tag) || !caughtUp(tag) {
					return
				}
			case "burst":
				// the network moved on (so the subjective head is no longer recent), then several callers
				// at once ask for the head and/or the new tip arrives over gossip, racing the sync loop
				e.grow(4 + ev.K)
				tip := e.getter.Tip()
				e.getter.set(func() { e.getter.HeadDelay = time.Duration(ev.RangeDelay) * time.Millisecond })
				var wg sync.WaitGroup
				heads := make([]*vh.Header, ev.K)
				herrs := make([]error, ev.K)
				gerrs := make([]error, ev.K)
				isGossip := make([]bool, ev.K)
				for j := 0; j < ev.K; j++ {
					isGossip[j] = ev.Kind == "gossip" || (ev.Kind == "mixed" && j%2 == 1)
					wg.Add(1)
					go func(j int) {
						defer wg.Done()
						if isGossip[j] {
							gctx, gcancel := context.WithTimeout(ctx, 30*time.Second)
							gerrs[j] = e.sub.deliver(gctx, chain.At(tip))
							gcancel()
						} else {
							heads[j], herrs[j] = e.syncer.Head(ctx)
						}
					}(j)
				}
				wg.Wait()
				e.getter.set(func() { e.getter.HeadDelay = 0 })
				concurrentBurst = true
				for j := 0; j < ev.K; j++ {
					if isGossip[j] {
						if gerrs[j] == nil {
							ack(tip)
						} else if !strings.Contains(gerrs[j].Error(), "known header") {
							// the chain's own tip: taken, or known because a concurrent delivery or Head() caller was
							// faster - never refused for any other reason (e.g. "busy with another candidate")
							res.failf("%s: the chain's tip %d, delivered %d times concurrently, was refused with %v", tag, tip, ev.K, gerrs[j])
							return
						}
						continue
					}
					if herrs[j] != nil {
						res.failf("%s: Syncer.Head failed with an honest getter: %v", tag, herrs[j])
						return
					}
					if !chain.IsCanonical(heads[j]) {
						res.failf("%s: Syncer.Head returned %v", tag, heads[j])
						return
					}
					ack(heads[j].H)
				}
				if syncing {
					learnedWhileSyncing = true
				}
			case "twin_race":
				// Head() learns the head adjacent to the stored one from the trusted getter and writes it (the
				// store write takes a moment); meanwhile an equivocating twin of that very header - same
				// lineage, valid hash link, other content - arrives over gossip. The height is already taken by
				// the header being written, so the twin must be refused and must not end up in the store.
				if !e.quiesce(600) {
					res.failf("HARNESS: no quiescence before %s", tag)
					return
				}
				sh, err := e.st.Head(ctx)
				if err != nil || sh.H+2 >= syncChainLen || sh.H < e.getter.Tip() {
					continue
				}
				time.Sleep(4 * time.Second) // the subjective head goes stale
				e.getter.SetTip(sh.H + 1)
				twin := chain.At(sh.H + 1).Clone()
				twin.Salt = 4242
				twin.Seal()
				e.slow.setDelay(50 * time.Millisecond)
				var twg sync.WaitGroup
				twg.Add(1)
				var th *vh.Header
				var terr error
				go func() {
					defer twg.Done()
					th, terr = e.syncer.Head(ctx)
				}()
				synctest.Wait() // Head() is now inside the store write of sh.H+1
				gctx, gcancel := context.WithTimeout(ctx, 30*time.Second)
				verr := e.sub.deliver(gctx, twin)
				gcancel()
				twg.Wait()
				e.slow.setDelay(0)
				advSeen["twin_race"] = true
				advWhileSyncing = true
				advHashes = append(advHashes, fmtHash(twin.Hash()))
				if terr == nil && th != nil {
					if !chain.IsCanonical(th) {
						res.failf("%s: Syncer.Head returned %v, not the header its trusted getter reported", tag, th)
						return
					}
					ack(th.H)
				}
				if verr == nil {
					res.failf("%s: an equivocating twin of height %d was accepted while Head() was storing the header of that height", tag, twin.H)
					return
				}
				if !e.quiesce(600) {
					res.failf("HARNESS: no quiescence at %s", tag)
					return
				}
				if !checkSafety(tag) {
					return
				}
			case "handoff_race":
				// A sync of k headers is in flight (slow range answer). Right before it completes, a gossip
				// handler starts verifying an equivocating twin of the first header being synced, and its read
				// of the store head takes a moment: the synced headers move from "pending" to "stored" under it.
				// Whatever the handler reads when, the twin's height is taken (pending before, stored after),
				// so the twin must be refused and must never reach the store.
				if !e.quiesce(600) {
					res.failf("HARNESS: no quiescence before %s", tag)
					return
				}
				sh, err := e.st.Head(ctx)
				if err != nil || sh.H+10 >= syncChainLen || sh.H < e.getter.Tip() {
					continue
				}
				k := uint64(ev.K) + 1
				rd := time.Duration(ev.RangeDelay) * time.Millisecond
				e.getter.set(func() { e.getter.RangeDelay = rd })
				e.getter.SetTip(sh.H + k)
				time.Sleep(time.Duration(k) * e.delta)
				gctx, gcancel := context.WithTimeout(ctx, 30*time.Second)
				if err := e.sub.deliver(gctx, chain.At(sh.H+k)); err == nil {
					ack(sh.H + k)
				}
				gcancel()
				synctest.Wait() // the sync loop now waits for the range answer
				twin := chain.At(sh.H + 1).Clone()
				twin.Salt = 4343
				twin.Seal()
				time.Sleep(rd - 10*time.Millisecond)
				e.slow.setHeadDelay(30 * time.Millisecond)
				gctx, gcancel = context.WithTimeout(ctx, 30*time.Second)
				verr := e.sub.deliver(gctx, twin)
				gcancel()
				e.slow.setHeadDelay(0)
				e.getter.set(func() { e.getter.RangeDelay = 0 })
				advSeen["handoff_race"] = true
				advWhileSyncing = true
				advHashes = append(advHashes, fmtHash(twin.Hash()))
				if verr == nil {
					res.failf("%s: an equivocating twin of height %d was accepted while the header of that height was being handed from the sync target to the store", tag, twin.H)
					return
				}
				if !e.quiesce(600) {
					res.failf("HARNESS: no quiescence at %s", tag)
					return
				}
				if !checkSafety(tag) {
					return
				}
			case "head_race":
				// The subjective head is stale; the (contract-abiding) getter answers the head request slowly
				// and with an unverifiable header plus a soft VerifyError, as an Exchange relaying what untrusted
				// peers said must. Meanwhile the real tip arrives over gossip and gets synced.
				time.Sleep(4 * time.Second)
				tip := e.getter.Tip()
				fh := min(tip+2+uint64(ev.K%3), syncChainLen-10)
				forged := vh.Variant(chain.At(fh), vh.AdvForged, uint32(i+500))
				forged.T = chain.At(tip).T
				forged.Seal()
				e.getter.set(func() {
					e.getter.HeadMode, e.getter.ExpiredHdr = "expired", forged
					e.getter.HeadDelay = time.Duration(ev.RangeDelay) * time.Millisecond
				})
				// one to three concurrent Head() callers: the first one performs the request, the others arrive
				// while it is in flight and share its answer - header AND soft error
				var hwg sync.WaitGroup
				ncallers := 1 + ev.K%3
				rhs := make([]*vh.Header, ncallers)
				rerrs := make([]error, ncallers)
				for c := 0; c < ncallers; c++ {
					hwg.Add(1)
					go func() {
						defer hwg.Done()
						rhs[c], rerrs[c] = e.syncer.Head(ctx)
					}()
					synctest.Wait()
				}
				// the network is already a few headers further (their stamps are within the clock drift allowance)
				newTip := min(fh+uint64(ev.K), syncChainLen-5)
				e.getter.SetTip(newTip)
				gctx, gcancel := context.WithTimeout(ctx, 30*time.Second)
				if gerr := e.sub.deliver(gctx, chain.At(newTip)); gerr == nil {
					ack(newTip)
				}
				gcancel()
				synctest.Wait()
				hwg.Wait()
				e.getter.set(func() { e.getter.HeadMode, e.getter.HeadDelay = "", 0 })
				advHashes = append(advHashes, fmtHash(forged.Hash()))
				advSeen["head_race"] = true
				advWhileSyncing = true
				for c, rh := range rhs {
					if rerrs[c] == nil && rh != nil {
						if !chain.IsCanonical(rh) {
							res.failf("%s: Syncer.Head (caller %d of %d) returned the unverifiable header %v", tag, c, ncallers, rh)
							return
						}
						ack(rh.H)
					}
				}
				// catch up with the clock
				time.Sleep(chain.At(newTip).Time().Sub(time.Now()) + time.Millisecond)
				if !e.quiesce(600) {
					res.failf("HARNESS: no quiescence at %s", tag)
					return
				}
				if !checkSafety(tag) {
					return
				}
			case "head":
				hd, err := e.syncer.Head(ctx)
				logf("%s -> %v %v", tag, hd, err)
				if err != nil {
					res.failf("%s: Syncer.Head failed with an honest getter: %v", tag, err)
					return
				}
				if !chain.IsCanonical(hd) {
					res.failf("%s: Syncer.Head returned a header that is not the chain's: %v", tag, hd)
					return
				}
				if syncing && hd.H > maxAcked {
					learnedWhileSyncing = true
				}
				ack(hd.H)
			case "gossip":
				tip := e.getter.Tip()
				var h *vh.Header
				adversarial := false
				switch ev.Kind {
				case "tip":
					h = chain.At(tip)
				case "skip": // a valid head that leaves the previous heights unknown: grow first, then deliver
					e.grow(ev.K)
					tip = e.getter.Tip()
					h = chain.At(tip)
				case "mid": // a valid header between the subjective head and the tip
					if tip > uint64(ev.K) {
						h = chain.At(tip - uint64(ev.K))
					} else {
						h = chain.At(tip)
					}
				case "dup":
					h = chain.At(tip)
				case "stale":
					adversarial = true
					sh, err := e.st.Head(ctx)
					if err != nil {
						continue
					}
					k := uint64(ev.K) % sh.H
					h = chain.At(sh.H - k)
				case "stale_fresh":
					// a different header for a height that is already stored (same lineage and valid link, other
					// content), stamped like the current head: only the "height already known" clause can refuse it
					adversarial = true
					sh, err := e.st.Head(ctx)
					if err != nil || sh.H < 2 {
						continue
					}
					k := 1 + uint64(ev.K)%(sh.H-1)
					h = chain.At(sh.H - k).Clone()
					h.Salt = uint32(9000 + i)
					h.T = sh.T
					h.Seal()
				case "forged_far":
					adversarial = true
					h = vh.Variant(chain.At(min(tip+uint64(ev.K)*7, syncChainLen-1)), vh.AdvForged, uint32(i))
					h.T = chain.At(tip).T
					h.Seal()
				case "forged_adjacent":
					adversarial = true
					lh, err := e.syncer.Head(ctx)
					if err != nil || lh.H+1 >= syncChainLen {
						continue
					}
					h = vh.Variant(chain.At(lh.H+1), vh.AdvForged, uint32(i))
					h.T = lh.T
					h.Seal()
				case "bad_validate_ok":
					// stateless validation is the Subscriber's job (C11); a header failing Validate but otherwise
					// canonical-looking is forged here so that it is unverifiable
					adversarial = true
					h = vh.Variant(chain.At(min(tip+1, syncChainLen-1)), vh.AdvForged, uint32(i+77))
					h.T = chain.At(tip).T
					h.Seal()
				default:
					adversarial = true
					base := chain.At(min(tip+uint64(ev.K%3), syncChainLen-1))
					h = vh.Variant(base, ev.Kind, uint32(i))
					if ev.Kind == vh.AdvForged || ev.Kind == vh.AdvForked || ev.Kind == vh.AdvWrongChain {
						h.T = chain.At(tip).T // not from the future
						h.Seal()
					}
				}
				if adversarial && chain.IsCanonical(h) && ev.Kind != "stale" {
					continue
				}
				gctx, gcancel := context.WithTimeout(ctx, 30*time.Second)
				verr := e.sub.deliver(gctx, h)
				gcancel()
				logf("%s h=%d -> %v", tag, h.H, verr)
				if adversarial {
					advSeen[ev.Kind] = true
					if syncing {
						advWhileSyncing = true
					}
					if verr == nil {
						res.failf("%s: gossip header %v cannot be verified (%s) but the verifier accepted it", tag, h, ev.Kind)
						return
					}
					obs.AdvRefused++
					if ev.Kind != "stale" {
						advHashes = append(advHashes, fmtHash(h.Hash()))
					}
				} else if verr == nil {
					if syncing {
						learnedWhileSyncing = true
					}
					ack(h.H)
				}
				if syncing {
					whileSyncing = true
				}
			}
			if c03 {
				// the sync target is never an adversarial header, at any time
				st := e.syncer.State()
				for _, ah := range advHashes {
					if fmtHash(st.ToHash) == ah {
						res.failf("%s: a refused gossip header became the sync target (State().ToHash)", tag)
						return
					}
				}
				callsBeforeEvent = len(e.getter.Calls())
				msBeforeEvent = nowMs()
				if lh, err := e.syncer.Head(ctx); err == nil {
					if !chain.IsCanonical(lh) {
						res.failf("%s: Syncer.Head returned an unverifiable header %v", tag, lh)
						return
					}
					ack(lh.H) // this call may itself have learned a new head
				}
			}
			for _, c := range e.getter.Calls() {
				if c.Err != "" && c.Method == "GetRangeByHeight" {
					errHit = true
				}
			}
		}

		if c03 && s.TwinFirst > 0 {
			if e.twinFirst(ctx, &res, s.TwinFirst, s.TwinLate, s.TwinMid, checkSafety) {
				res.NonTrivial = true
				res.label("adv=twin_first")
				synctest.Wait()
				return
			}
			if res.Verdict != "" {
				return
			}
		}

		// ---- final phase ----
		if !e.quiesce(600) {
			res.failf("HARNESS: no quiescence before the final phase")
			return
		}
		if !checkSafety("before final phase") || !caughtUp("before final phase") {
			return
		}
		st := e.syncer.State()
		if errHit {
			obs.GetterErrs++
		}
		// heal the getter, let one more valid head arrive: everything acknowledged must get synced
		e.getter.set(func() { e.getter.RangeMax, e.getter.RangeErrs, e.getter.RangeDelay = 0, 0, 0 })
		e.grow(1)
		callsBeforeEvent = len(e.getter.Calls())
		msBeforeEvent = nowMs()
		tip := e.getter.Tip()
		fctx, fcancel := context.WithTimeout(ctx, 30*time.Second)
		verr := e.sub.deliver(fctx, chain.At(tip))
		fcancel()
		if verr == nil {
			ack(tip)
		} else {
			logf("final tip %d refused: %v", tip, verr)
			hd, herr := e.syncer.Head(ctx)
			if herr != nil {
				res.failf("final: Syncer.Head failed: %v", herr)
				return
			}
			ack(hd.H)
			// Head() may have triggered the sync itself
		}
		if !e.quiesce(600) {
			res.failf("HARNESS: no quiescence in the final phase")
			return
		}
		if !checkSafety("final") {
			return
		}
		sh, err := e.st.Head(ctx)
		if err != nil {
			res.failf("final: store head: %v", err)
			return
		}
		st = e.syncer.State()
		// C07: the store reaches the newest acknowledged head
		if sh.H != maxAcked {
			res.failf("final: with a healthy getter the store head is %d but the newest head the Syncer acknowledged is %d (state %+v)", sh.H, maxAcked, st)
			return
		}
		if !st.Finished() || st.Error != "" {
			res.failf("final: State() = %+v, want finished without error", st)
			return
		}
		t0 := time.Now()
		wctx, wcancel := context.WithTimeout(ctx, time.Minute)
		werr := e.syncer.SyncWait(wctx)
		wcancel()
		if werr != nil || time.Since(t0) > 0 {
			res.failf("final: SyncWait returned %v after %v, want nil at once", werr, time.Since(t0))
			return
		}

		if c03 {
			res.NonTrivial = advWhileSyncing || len(advSeen) >= 2
			for k := range advSeen {
				res.label("adv=" + k)
			}
		} else {
			res.NonTrivial = (learnedWhileSyncing && (shortPrefix || errHit)) || concurrentBurst
		}
		if whileSyncing {
			res.label("gossip_while_syncing")
		}
		if concurrentBurst {
			res.label("concurrent_burst")
		}
		if errHit {
			res.label("getter_error_during_sync")
		}
		if s.Prefill == 0 {
			res.label("init_from_empty_store")
		}
		synctest.Wait()
	})
	return res
}

// twinFirst is the terminal event of a C03 history. The store is in sync at height s; the subjective head goes
// stale; a Head() caller asks the (slow) trusted getter, which will answer the canonical header T of height
// h >= s+2. While that request is in flight an equivocating twin F of T - same lineage, valid hash link, other
// content - arrives over gossip: it verifies against the subjective head like T would and becomes the sync
// target. Then T comes back (the store head is still s: the range request is slower). Whichever header the
// Syncer keeps for height h, the Store must hold exactly one header per height: canonical below h, F or T at h,
// nothing else in the datastore. The canonical chain cannot grow past F, so the history ends here.
// Reports true when the event ran to its verdict-free end (false: skipped, or a violation was recorded).
func (e *syncEnv) twinFirst(ctx context.Context, res *Result, k int, late bool, mid int, checkSafety func(string) bool) bool {
	tag := "terminal twin_first"
	hd, rd := 300*time.Millisecond, 2*time.Second
	if late {
		tag = "terminal twin_first(late answer)"
		hd, rd = 2*time.Second, 300*time.Millisecond
	} else if mid > 0 {
		tag = fmt.Sprintf("terminal twin_first(answer %d ms after the range)", mid)
		hd, rd = time.Second+time.Duration(mid)*time.Millisecond, time.Second
	}
	chain := e.chain
	e.getter.set(func() { e.getter.RangeMax, e.getter.RangeErrs, e.getter.RangeDelay, e.getter.HeadMode = 0, 0, 0, "" })
	if !e.quiesce(600) {
		res.failf("HARNESS: no quiescence before %s", tag)
		return false
	}
	if !checkSafety("before " + tag) {
		return false
	}
	sh, err := e.st.Head(ctx)
	if err != nil || sh.H+uint64(k)+2 >= syncChainLen || sh.H < e.getter.Tip() {
		return false
	}
	h := sh.H + 1 + uint64(k)
	time.Sleep(4 * time.Second) // the subjective head goes stale
	e.getter.SetTip(h)
	time.Sleep(time.Duration(h-sh.H) * e.delta)
	T := chain.At(h)
	F := T.Clone()
	F.Salt = 4545
	F.Seal()
	if mid > 0 {
		// open finding C03/head-answer-while-twin-in-write-queue: explained only if, in this timing, the datastore
		// ends up holding both the twin and the trusted peers' header of height h
		defer func() {
			if res.Verdict == "" || !strings.HasPrefix(res.Verdict, "terminal twin_first(answer") {
				return
			}
			nF, nT := 0, 0
			for key, v := range e.mem.Snapshot() {
				name := strings.TrimPrefix(key, storePrefix+"/")
				if name == key || name == "head" || name == "tail" || isDigits(name) {
					continue
				}
				hd := new(vh.Header)
				if hd.UnmarshalBinary(v) != nil {
					continue
				}
				if bytes.Equal(hd.Hash(), F.Hash()) {
					nF++
				}
				if bytes.Equal(hd.Hash(), T.Hash()) {
					nT++
				}
			}
			res.Verdict += fmt.Sprintf(" [datastore: twin x%d, trusted header x%d]", nF, nT)
			servedF := false
			c1, cn := vctx(time.Second)
			if g, err := e.st.GetByHeight(c1, F.H); err == nil && bytes.Equal(g.Hash(), F.Hash()) {
				servedF = true
			}
			cn()
			// both headers of height h were written: the trusted peers' header is in the datastore, the twin
			// is there too or is what the Store serves for the height
			if nT == 1 && (nF == 1 || servedF) {
				res.Known = "C03/head-answer-while-twin-in-write-queue"
			}
		}()
	}
	e.getter.set(func() { e.getter.HeadDelay, e.getter.RangeDelay = hd, rd })
	if mid > 0 {
		e.slow.setDelay(50 * time.Millisecond)
	}
	var wg sync.WaitGroup
	wg.Add(1)
	var hh *vh.Header
	var herr error
	go func() {
		defer wg.Done()
		hh, herr = e.syncer.Head(ctx)
	}()
	synctest.Wait() // Head() waits for the getter's answer
	gctx, gcancel := context.WithTimeout(ctx, 30*time.Second)
	verr := e.sub.deliver(gctx, F)
	gcancel()
	wg.Wait()
	e.slow.setDelay(0)
	e.getter.set(func() { e.getter.HeadDelay, e.getter.RangeDelay = 0, 0 })
	if herr != nil {
		res.failf("%s: Syncer.Head failed with an honest getter: %v", tag, herr)
		return false
	}
	if hh != nil && !chain.IsCanonical(hh) && !bytes.Equal(hh.Hash(), F.Hash()) {
		res.failf("%s: Syncer.Head returned %v: neither the chain's header nor the accepted twin", tag, hh)
		return false
	}
	if !e.quiesce(600) {
		res.failf("HARNESS: no quiescence at %s", tag)
		return false
	}
	head, herr2 := e.st.Head(ctx)
	tail, terr := e.st.Tail(ctx)
	if herr2 != nil || terr != nil {
		res.failf("%s: store Head err=%v Tail err=%v", tag, herr2, terr)
		return false
	}
	if head.H > h || head.H < sh.H {
		res.failf("%s: store head %d, want within [%d, %d]", tag, head.H, sh.H, h)
		return false
	}
	if verr != nil && head.H == h && !chain.IsCanonical(head) {
		res.failf("%s: the twin was refused (%v) and is the store head all the same", tag, verr)
		return false
	}
	var prev *vh.Header
	for x := tail.H; x <= head.H; x++ {
		c1, cn := vctx(time.Second)
		g, err := e.st.GetByHeight(c1, x)
		cn()
		if err != nil {
			res.failf("%s: store has a gap: height %d in [Tail %d, Head %d] is not retrievable: %v", tag, x, tail.H, head.H, err)
			return false
		}
		if !(chain.IsCanonical(g) || (x == h && bytes.Equal(g.Hash(), F.Hash()))) {
			res.failf("%s: store holds a header at %d that is neither the chain's nor the accepted twin: %v", tag, x, g)
			return false
		}
		if prev != nil && !bytes.Equal(g.Prev, prev.Hash()) {
			res.failf("%s: header %d does not link to the stored header %d", tag, x, x-1)
			return false
		}
		c2, cn2 := vctx(time.Second)
		bh, err := e.st.Get(c2, g.Hash())
		cn2()
		if err != nil || bh.H != x {
			res.failf("%s: the header at height %d is not retrievable by its hash: %v", tag, x, err)
			return false
		}
		prev = g
	}
	// the raw datastore: one header per height, the index agrees, nothing outside [Tail, Head]
	perHeight := map[uint64][]string{}
	index := map[uint64]string{}
	for key, v := range e.mem.Snapshot() {
		name := strings.TrimPrefix(key, storePrefix+"/")
		if name == key || name == "head" || name == "tail" {
			continue
		}
		if isDigits(name) {
			x, _ := strconv.ParseUint(name, 10, 64)
			index[x] = strings.ToUpper(fmtHash(v))
			continue
		}
		hd := new(vh.Header)
		if err := hd.UnmarshalBinary(v); err != nil {
			res.failf("%s: datastore key %s holds an undecodable header", tag, key)
			return false
		}
		if !(chain.IsCanonical(hd) || bytes.Equal(hd.Hash(), F.Hash())) {
			res.failf("%s: datastore holds %v: neither the chain's nor the accepted twin", tag, hd)
			return false
		}
		perHeight[hd.H] = append(perHeight[hd.H], strings.ToUpper(fmtHash(hd.Hash())))
	}
	for x, hs := range perHeight {
		if len(hs) != 1 {
			res.failf("%s: datastore holds %d different headers of height %d (the gossiped twin and the trusted peers' header): one chain means one header per height", tag, len(hs), x)
			return false
		}
		if x < tail.H || x > head.H {
			res.failf("%s: datastore holds header %d outside [Tail %d, Head %d]", tag, x, tail.H, head.H)
			return false
		}
		if index[x] != hs[0] {
			res.failf("%s: height index %d -> %s but the stored header of that height is %s", tag, x, index[x], hs[0])
			return false
		}
	}
	for x := range index {
		if len(perHeight[x]) == 0 {
			res.failf("%s: height index %d points at nothing", tag, x)
			return false
		}
	}
	if verr == nil {
		res.label("twin_first_accepted")
	}
	if late {
		res.label("twin_first_late_answer")
	}
	if mid > 0 {
		res.label("twin_first_answer_during_store_writes")
	}
	if head.H == h {
		if chain.IsCanonical(head) {
			res.label("twin_first_T_kept")
		} else {
			res.label("twin_first_F_kept")
		}
	}
	return true
}

func runC07(t *testing.T, s SyncScenario) Result {
	if s.Sched != nil {
		return runSyncSched(t, *s.Sched)
	}
	return runSync(t, s, false)
}
func runC03(t *testing.T, s SyncScenario) Result {
	if s.Sched != nil {
		return runSyncSched(t, *s.Sched)
	}
	return runSync(t, s, true)
}

func TestC07(t *testing.T)       { check(t, "C07", genSync(false), runC07) }
func TestC07Replay(t *testing.T) { replay(t, "C07", runC07) }
func TestC03(t *testing.T)       { check(t, "C03", genSync(true), runC03) }
func TestC03Replay(t *testing.T) { replay(t, "C03", runC03) }
