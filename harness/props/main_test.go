package props

import (
	"context"
	"encoding/json"
	"fmt"
	"os"
	"runtime"
	"strconv"
	"strings"
	"testing"
	"testing/synctest"
	"time"

	logging "github.com/ipfs/go-log/v2"
	"pgregory.net/rapid"

	"verif/harness/evid"
)

func TestMain(m *testing.M) {
	logging.SetAllLoggers(logging.LevelFatal)
	if lv := os.Getenv("VERIF_LOG"); lv != "" {
		_ = logging.SetLogLevel("header/p2p", lv)
		_ = logging.SetLogLevel("header/store", lv)
		_ = logging.SetLogLevel("header/sync", lv)
	}
	code := m.Run()
	evid.DumpAll()
	os.Exit(code)
}

// Result is what an executor returns for one scenario.
type Result struct {
	Verdict    string   // "" = property held
	NonTrivial bool     // by the property's stated rule
	SigKey     any      // what distinctness is measured on (nil = whole scenario)
	Labels     []string // classification of the case
	Known      string   // key of a known finding that explains a failure ("" otherwise)
	Obs        any      // observations, printed on failure
	// schedule engines: per scheduling step the index chosen and the number of parked goroutines
	TraceK, TraceN []int
}

func (r *Result) failf(format string, a ...any) {
	if r.Verdict == "" {
		r.Verdict = fmt.Sprintf(format, a...)
	}
}

// startScoped runs a component's Start with a context of its own that is cancelled as soon as Start has
// returned: the context handed to Start bounds the start, not the component's life.
func startScoped(start func(context.Context) error) error {
	ctx, cancel := context.WithTimeout(context.Background(), time.Hour)
	defer cancel()
	return start(ctx)
}

// startScopedIn is startScoped with a start context derived from the caller's (which may bound the start).
func startScopedIn(parent context.Context, start func(context.Context) error) error {
	ctx, cancel := context.WithCancel(parent)
	defer cancel()
	return start(ctx)
}

func (r *Result) label(l ...string) { r.Labels = append(r.Labels, l...) }

func tier() string {
	if v := os.Getenv("VERIF_TIER"); v != "" {
		return v
	}
	return "quick"
}

func envInt(name string, def int) int {
	if v := os.Getenv(name); v != "" {
		if n, err := strconv.Atoi(v); err == nil {
			return n
		}
	}
	return def
}

// noCurrent lists pure-function properties for which crash attribution files are not written per case.
var noCurrent = map[string]bool{"C01": true, "C02": true}

// check runs a property: gen draws a scenario (outside any bubble), run executes it.
func check[S any](t *testing.T, prop string, gen func(*rapid.T) S, run func(*testing.T, S) Result) {
	col := evid.For(prop)
	rapid.Check(t, func(rt *rapid.T) {
		sc := gen(rt)
		if !noCurrent[prop] {
			evid.WriteCurrent(prop, sc)
		}
		res := run(t, sc)
		col.Case(sc, res.NonTrivial, res.SigKey, res.Labels...)
		if res.Verdict != "" {
			if res.Known != "" && knownOpen(prop, res.Known) {
				col.Known(res.Known)
				return
			}
			p := evid.WriteReplay(prop, sc, res.Verdict)
			b, _ := json.Marshal(sc)
			o, _ := json.Marshal(res.Obs)
			rt.Fatalf("%s violated: %s\nscenario: %s\nobs: %s\nreplay: %s", prop, res.Verdict, b, o, p)
		}
	})
}

// replay re-executes a saved scenario without rapid.
func replay[S any](t *testing.T, prop string, run func(*testing.T, S) Result) {
	path := os.Getenv("VERIF_REPLAY")
	if path == "" {
		t.Skip("VERIF_REPLAY not set")
	}
	var sc S
	if err := evid.ReadReplay(path, &sc); err != nil {
		t.Fatalf("HARNESS: cannot read replay %s: %v", path, err)
	}
	evid.WriteCurrent(prop, sc)
	res := run(t, sc)
	evid.For(prop).Case(sc, res.NonTrivial, res.SigKey, res.Labels...)
	if res.Verdict != "" {
		if res.Known != "" {
			fmt.Printf("REPLAY-KNOWN key=%s\n", res.Known)
		}
		o, _ := json.Marshal(res.Obs)
		fmt.Printf("REPLAY-FAIL property=%s verdict=%s\nobs: %s\n", prop, res.Verdict, o)
		t.Fatalf("%s violated on replay: %s", prop, res.Verdict)
	}
	if os.Getenv("VERIF_SHOW_OBS") != "" {
		o, _ := json.Marshal(res.Obs)
		fmt.Printf("obs: %s\nlabels: %v\n", o, res.Labels)
	}
	fmt.Printf("REPLAY-PASS property=%s\n", prop)
}

// bubble runs f inside a synctest bubble and returns when every goroutine of it has exited.
func bubble(t *testing.T, f func()) {
	synctest.Test(t, func(*testing.T) {
		f()
		// time stops when the bubble's root goroutine exits: give goroutines that are still sleeping
		// (delayed handlers, retry back-offs, late SetVerifier) the virtual time to finish first
		time.Sleep(2 * time.Minute)
		synctest.Wait()
		if os.Getenv("VERIF_DEBUG_LEAK") != "" {
			synctest.Wait()
			buf := make([]byte, 1<<20)
			n := runtime.Stack(buf, true)
			blocks := strings.Split(string(buf[:n]), "\n\n")
			for _, b := range blocks {
				if strings.Contains(b, "synctest bubble") && !strings.Contains(b, "props.bubble") && !strings.Contains(b, "[sleep") && !strings.Contains(b, "testingSynctestTest") {
					fmt.Fprintf(os.Stderr, "LEAKED GOROUTINE:\n%s\n\n", b)
				}
			}
		}
	})
}

func evidFor(p string) *evid.Collector { return evid.For(p) }

func evidWriteReplay(prop string, sc any, verdict string) string {
	return evid.WriteReplay(prop, sc, verdict)
}

// ---- known findings -------------------------------------------------------------------

type knownFinding struct {
	Property string `json:"property"`
	Key      string `json:"key"`
	Status   string `json:"status"`
	Commit   string `json:"commit,omitempty"`
	What     string `json:"what"`
	Witness  string `json:"witness,omitempty"`
}

var knownCache []knownFinding
var knownLoaded bool

func loadKnown() []knownFinding {
	if knownLoaded {
		return knownCache
	}
	knownLoaded = true
	p := os.Getenv("VERIF_KNOWN")
	if p == "" {
		p = "/verif/known_findings.json"
	}
	b, err := os.ReadFile(p)
	if err != nil {
		return nil
	}
	var w struct {
		Findings []knownFinding `json:"findings"`
	}
	if json.Unmarshal(b, &w) == nil {
		knownCache = w.Findings
	}
	return knownCache
}

func knownOpen(prop, key string) bool {
	for _, k := range loadKnown() {
		if k.Property == prop && k.Key == key && k.Status == "open" {
			return true
		}
	}
	return false
}
