package props

import (
	"context"
	"errors"
	"fmt"
	"sync"
	"testing/synctest"
	"time"

	header "github.com/celestiaorg/go-header"
	"github.com/celestiaorg/go-header/store"
	hsync "github.com/celestiaorg/go-header/sync"

	"verif/harness/memds"
	"verif/harness/vh"
)

// syncsim: a real sync.Syncer over a real store.Store, a scripted Getter over the canonical chain
// and a fake Subscriber that captures the verifier, all in virtual time.

type getterCall struct {
	Method  string `json:"m"`
	A       uint64 `json:"a,omitempty"` // height / from
	B       uint64 `json:"b,omitempty"` // to
	Trusted uint64 `json:"trusted,omitempty"`
	At      int64  `json:"at_ms"`
	EndAt   int64  `json:"end_ms"`
	Ret     int    `json:"ret,omitempty"` // number of headers returned
	Err     string `json:"err,omitempty"`
}

var errSimGetter = errors.New("simgetter: injected failure")

// injected returns the error of an injected failure in the shape the scenario chose.
func (g *simGetter) injected() error {
	g.mu.Lock()
	k := g.ErrKind
	g.mu.Unlock()
	switch k {
	case 1:
		return fmt.Errorf("%w: %w", errSimGetter, context.Canceled)
	case 2:
		return fmt.Errorf("%w: %w", errSimGetter, context.DeadlineExceeded)
	case 3:
		return fmt.Errorf("%w: %w", errSimGetter, header.ErrNotFound)
	}
	return errSimGetter
}

type simGetter struct {
	chain *vh.Chain
	mu    sync.Mutex
	tip   uint64 // the network head the honest peers hold
	calls []getterCall
	t0    time.Time

	outstanding int

	// policies (protected by mu)
	RangeErrs    int           // fail the next N range calls
	ErrKind      int           // what an injected failure looks like: 0 plain; 1 wraps context.Canceled (a stopped Exchange); 2 wraps context.DeadlineExceeded; 3 wraps header.ErrNotFound
	RangeMax     int           // longest prefix returned (0 = as asked)
	RangeDelay   time.Duration // virtual delay of range calls
	HeadMode     string        // "" tip | stale | expired | error | soft | future
	HeadStale    uint64        // heights below tip for "stale"
	HeadDelay    time.Duration
	ByHeightFail int // fail the j-th (0-based) GetByHeight call from now; -1 never
	byHeightSeen int
	ForgedAt     uint64 // GetByHeight returns a forged header at this height
	ExpiredHdr   *vh.Header
	// MaxByHeight, if > 0, is a circuit breaker: GetByHeight calls beyond it fail, so that a search that
	// does not terminate is cut off (and then judged by its request count) instead of spinning forever.
	MaxByHeight int
	// Park, if set, is called at the start of every call (yield point for the scheduler).
	Park func(point string)
}

func newSimGetter(chain *vh.Chain, tip uint64) *simGetter {
	return &simGetter{chain: chain, tip: tip, t0: time.Now(), ByHeightFail: -1}
}

func (g *simGetter) enter(c getterCall) int {
	g.mu.Lock()
	c.At = time.Since(g.t0).Milliseconds()
	g.calls = append(g.calls, c)
	i := len(g.calls) - 1
	g.outstanding++
	park := g.Park
	g.mu.Unlock()
	if park != nil {
		park("getter:" + c.Method)
	}
	return i
}

func (g *simGetter) leave(i, ret int, err error) {
	g.mu.Lock()
	g.outstanding--
	g.calls[i].EndAt = time.Since(g.t0).Milliseconds()
	g.calls[i].Ret = ret
	if err != nil {
		g.calls[i].Err = err.Error()
	}
	g.mu.Unlock()
}

func (g *simGetter) Outstanding() int {
	g.mu.Lock()
	defer g.mu.Unlock()
	return g.outstanding
}

func (g *simGetter) Calls() []getterCall {
	g.mu.Lock()
	defer g.mu.Unlock()
	return append([]getterCall(nil), g.calls...)
}

func (g *simGetter) Tip() uint64 {
	g.mu.Lock()
	defer g.mu.Unlock()
	return g.tip
}

func (g *simGetter) SetTip(t uint64) {
	g.mu.Lock()
	g.tip = t
	g.mu.Unlock()
}

func (g *simGetter) set(f func()) {
	g.mu.Lock()
	f()
	g.mu.Unlock()
}

func sleepCtx(ctx context.Context, d time.Duration) error {
	if d <= 0 {
		return ctx.Err()
	}
	t := time.NewTimer(d)
	defer t.Stop()
	select {
	case <-t.C:
		return nil
	case <-ctx.Done():
		return ctx.Err()
	}
}

func (g *simGetter) Head(ctx context.Context, opts ...header.HeadOption[*vh.Header]) (h *vh.Header, err error) {
	var p header.HeadParams[*vh.Header]
	for _, o := range opts {
		o(&p)
	}
	c := getterCall{Method: "Head"}
	if p.TrustedHead != nil {
		c.Trusted = p.TrustedHead.H
	}
	i := g.enter(c)
	defer func() {
		n := 0
		if h != nil {
			n = 1
		}
		g.leave(i, n, err)
	}()
	g.mu.Lock()
	mode, stale, delay, tip, exp := g.HeadMode, g.HeadStale, g.HeadDelay, g.tip, g.ExpiredHdr
	g.mu.Unlock()
	if err := sleepCtx(ctx, delay); err != nil {
		return nil, err
	}
	var out *vh.Header
	switch mode {
	case "error":
		return nil, errSimGetter
	case "stale":
		hh := uint64(1)
		if tip > stale {
			hh = tip - stale
		}
		out = g.chain.At(hh)
	case "expired":
		out = exp
	case "future":
		// the peers' head is stamped far ahead of the clock: not expired, but it cannot be verified
		out = vh.Variant(g.chain.At(tip), vh.AdvFuture, 1)
	default:
		out = g.chain.At(tip)
	}
	if out == nil {
		return nil, header.ErrNotFound
	}
	if p.TrustedHead != nil {
		// an honest Exchange verifies against the trusted head: hard failures are dropped, soft ones
		// are handed over together with the header
		// (decided by the reference model of Verify, so that a defect inside header.Verify does not change
		// what this stand-in for the Exchange hands to the Syncer)
		switch ok, soft := modelVerify(p.TrustedHead, out); {
		case ok:
		case soft:
			return out, &header.VerifyError{Reason: errors.New("simgetter: head does not verify against the trusted head"), SoftFailure: true}
		default:
			return nil, header.ErrNotFound
		}
	}
	return out, nil
}

func (g *simGetter) Get(ctx context.Context, hash header.Hash) (h *vh.Header, err error) {
	i := g.enter(getterCall{Method: "Get"})
	defer func() { g.leave(i, 0, err) }()
	tip := g.Tip()
	for _, c := range g.chain.Headers {
		if c.H <= tip && fmtHash(c.Hash()) == fmtHash(hash) {
			return c, nil
		}
	}
	return nil, header.ErrNotFound
}

func (g *simGetter) GetByHeight(ctx context.Context, height uint64) (h *vh.Header, err error) {
	i := g.enter(getterCall{Method: "GetByHeight", A: height})
	defer func() {
		n := 0
		if h != nil {
			n = 1
		}
		g.leave(i, n, err)
	}()
	g.mu.Lock()
	failAt, seen, forgedAt, tip := g.ByHeightFail, g.byHeightSeen, g.ForgedAt, g.tip
	g.byHeightSeen++
	g.mu.Unlock()
	if failAt >= 0 && seen == failAt {
		return nil, errSimGetter
	}
	if g.MaxByHeight > 0 && seen >= g.MaxByHeight {
		return nil, errors.New("simgetter: request budget exhausted")
	}
	if height == 0 || height > tip {
		return nil, header.ErrNotFound
	}
	c := g.chain.At(height)
	if forgedAt == height {
		return vh.Variant(c, vh.AdvForged, 9), nil
	}
	return c, nil
}

func (g *simGetter) GetRangeByHeight(ctx context.Context, from *vh.Header, to uint64) (hs []*vh.Header, err error) {
	i := g.enter(getterCall{Method: "GetRangeByHeight", A: from.Height(), B: to})
	defer func() { g.leave(i, len(hs), err) }()
	g.mu.Lock()
	fail := g.RangeErrs > 0
	if fail {
		g.RangeErrs--
	}
	maxLen, delay, tip := g.RangeMax, g.RangeDelay, g.tip
	g.mu.Unlock()
	if err := sleepCtx(ctx, delay); err != nil {
		return nil, err
	}
	if fail {
		return nil, g.injected()
	}
	end := to
	if end > tip+1 {
		end = tip + 1
	}
	out := g.chain.Range(from.Height()+1, end)
	if maxLen > 0 && len(out) > maxLen {
		out = out[:maxLen]
	}
	if len(out) == 0 {
		return nil, header.ErrNotFound
	}
	return out, nil
}

// fakeSub captures the verifier the Syncer registers.
type fakeSub struct {
	mu       sync.Mutex
	verifier func(context.Context, *vh.Header) error
}

func (f *fakeSub) Subscribe() (header.Subscription[*vh.Header], error) {
	return nil, errors.New("fakeSub: not supported")
}

func (f *fakeSub) SetVerifier(v func(context.Context, *vh.Header) error) error {
	f.mu.Lock()
	defer f.mu.Unlock()
	f.verifier = v
	return nil
}

func (f *fakeSub) deliver(ctx context.Context, h *vh.Header) error {
	f.mu.Lock()
	v := f.verifier
	f.mu.Unlock()
	if v == nil {
		return errors.New("fakeSub: no verifier")
	}
	return v(ctx, h)
}

// slowAppendStore is the real store with an Append that can be made to take virtual time, which
// opens the window between "a header is being written" and "it is written" for other goroutines.
type slowAppendStore struct {
	*store.Store[*vh.Header]
	mu        sync.Mutex
	delay     time.Duration
	headDelay time.Duration // Head() takes this much virtual time (a reader caught between two reads)
}

func (s *slowAppendStore) setHeadDelay(d time.Duration) {
	s.mu.Lock()
	s.headDelay = d
	s.mu.Unlock()
}

func (s *slowAppendStore) Head(ctx context.Context, opts ...header.HeadOption[*vh.Header]) (*vh.Header, error) {
	s.mu.Lock()
	d := s.headDelay
	s.mu.Unlock()
	if d > 0 {
		time.Sleep(d)
	}
	return s.Store.Head(ctx, opts...)
}

func (s *slowAppendStore) setDelay(d time.Duration) {
	s.mu.Lock()
	s.delay = d
	s.mu.Unlock()
}

func (s *slowAppendStore) Append(ctx context.Context, hs ...*vh.Header) error {
	s.mu.Lock()
	d := s.delay
	s.mu.Unlock()
	if d > 0 {
		time.Sleep(d)
	}
	return s.Store.Append(ctx, hs...)
}

type syncEnv struct {
	slow   *slowAppendStore
	chain  *vh.Chain
	delta  time.Duration
	tip0   uint64
	mem    *memds.Mem
	st     *store.Store[*vh.Header]
	getter *simGetter
	sub    *fakeSub
	syncer *hsync.Syncer[*vh.Header]
	opts   []hsync.Option
}

// newSyncChain builds a chain of n headers whose header tip0 is stamped "now" (bubble start) and
// which advances by delta per height.
func newSyncChain(id string, n int, tip0 uint64, delta time.Duration, spans []uint64, flags ...uint8) *vh.Chain {
	spec := vh.ChainSpec{ChainID: id, N: n, StartMs: -int64(tip0-1) * delta.Milliseconds(), DeltaMs: []int64{delta.Milliseconds()}, Spans: spans}
	for _, f := range flags {
		spec.Flags |= f
	}
	return spec.Build()
}

func newSyncEnv(chain *vh.Chain, tip0 uint64, delta time.Duration, storeOpts []store.Option, opts ...hsync.Option) (*syncEnv, error) {
	e := &syncEnv{chain: chain, delta: delta, tip0: tip0, mem: memds.New(), sub: &fakeSub{}, opts: opts}
	st, err := store.NewStore[*vh.Header](e.mem, storeOpts...)
	if err != nil {
		return nil, err
	}
	if err := startScoped(st.Start); err != nil {
		return nil, err
	}
	e.st = st
	e.getter = newSimGetter(chain, tip0)
	return e, nil
}

// startSyncer creates a fresh Syncer over the environment's store and starts it.
func (e *syncEnv) startSyncer(ctx context.Context) error {
	if e.slow == nil {
		e.slow = &slowAppendStore{Store: e.st}
	}
	s, err := hsync.NewSyncer[*vh.Header](e.getter, e.slow, e.sub, e.opts...)
	if err != nil {
		return err
	}
	e.syncer = s
	return startScopedIn(ctx, s.Start)
}

func (e *syncEnv) stop() {
	if e.syncer != nil {
		_ = e.syncer.Stop(context.Background())
	}
	synctest.Wait()
	stopStore(e.st)
}

// grow extends the network by k headers and advances the clock accordingly.
func (e *syncEnv) grow(k int) {
	t := e.getter.Tip() + uint64(k)
	if t > uint64(len(e.chain.Headers)) {
		t = uint64(len(e.chain.Headers))
	}
	adv := t - e.getter.Tip()
	e.getter.SetTip(t)
	time.Sleep(time.Duration(adv) * e.delta)
}

// quiesce waits until no getter call is outstanding, the sync loop is idle and the store's
// write queue is drained; virtual time advances in small steps while something is pending.
func (e *syncEnv) quiesce(maxSteps int) bool {
	step := 20 * time.Millisecond
	for i := 0; i < maxSteps; i++ {
		synctest.Wait()
		if e.getter.Outstanding() == 0 {
			ctx, cancel := vctx(time.Minute)
			_ = e.st.Sync(ctx)
			cancel()
			synctest.Wait()
			if e.getter.Outstanding() == 0 {
				return true
			}
		}
		time.Sleep(step)
		if step < 5*time.Second {
			step *= 2
		}
	}
	return false
}

// storeIsCanonicalRun checks the C03 store invariant: one gap-free run Tail..Head of canonical headers,
// and nothing non-canonical anywhere in the datastore.
func (e *syncEnv) storeIsCanonicalRun() string {
	ctx, cancel := vctx(time.Minute)
	defer cancel()
	head, herr := e.st.Head(ctx)
	tail, terr := e.st.Tail(ctx)
	if herr != nil || terr != nil {
		if errors.Is(herr, header.ErrEmptyStore) && errors.Is(terr, header.ErrEmptyStore) {
			return ""
		}
		return fmt.Sprintf("store Head err=%v Tail err=%v", herr, terr)
	}
	if tail.H > head.H {
		return fmt.Sprintf("store Tail %d > Head %d", tail.H, head.H)
	}
	for h := tail.H; h <= head.H; h++ {
		c1, cn := vctx(time.Second)
		g, err := e.st.GetByHeight(c1, h)
		cn()
		if err != nil {
			return fmt.Sprintf("store has a gap: height %d in [Tail %d, Head %d] is not retrievable: %v", h, tail.H, head.H, err)
		}
		if !e.chain.IsCanonical(g) {
			return fmt.Sprintf("store holds a header at %d that is not the chain's: %v", h, g)
		}
	}
	byHash, byIndex, problem := rawScan(e.mem, e.chain)
	if problem != "" {
		return "datastore: " + problem
	}
	for h := range byHash {
		if h < tail.H || h > head.H {
			return fmt.Sprintf("datastore holds header %d outside [Tail %d, Head %d]", h, tail.H, head.H)
		}
	}
	_ = byIndex
	return ""
}
