package props

import (
	"context"
	"fmt"
	"sync"
	"testing"
	"testing/synctest"
	"time"

	header "github.com/celestiaorg/go-header"
	"github.com/celestiaorg/go-header/p2p"
	"github.com/celestiaorg/go-header/store"
	"github.com/libp2p/go-libp2p/core/peer"
	"pgregory.net/rapid"

	"verif/harness/vh"
)

// C18 — With honest peers the Exchange returns the full range however it is split.

type C18Peer struct {
	Tail           uint64 `json:"tail"`
	Head           uint64 `json:"head"`
	SlowCall       int    `json:"slow_call"`             // index of the range call answered after the request timeout; -1 never
	DisconnectAtMs int    `json:"disconnect_at_ms"`      // virtual ms after the call starts; -1 never
	BreakAfter     int    `json:"break_after,omitempty"` // its first answer breaks (stream reset) after this many frames; 0 never
}

type C18Scenario struct {
	// Metrics: the Exchange is built WithMetrics (a configuration that must not change any result)
	Metrics bool `json:"metrics,omitempty"`
	// Restart: the Exchange is stopped and started again before it is used
	Restart bool      `json:"restart,omitempty"`
	From    uint64    `json:"from"`
	Len     int       `json:"len"` // number of headers requested: to = from+1+len
	Chunk   uint64    `json:"chunk"`
	Peers   []C18Peer `json:"peers"`           // peer 0 is always fully capable and fault-free ...
	Split   bool      `json:"split,omitempty"` // ... unless split: peers 0 and 1 (both fault-free) hold the range only together
	// Bounce: before the request the connection to peer 0 drops and comes back (once or twice)
	Bounce int `json:"bounce,omitempty"`
}

const c18ChainLen = 260

func genC18(t *rapid.T) C18Scenario {
	s := C18Scenario{
		From:  rapid.Uint64Range(1, 40).Draw(t, "from"),
		Chunk: rapid.SampledFrom([]uint64{1, 1, 2, 3, 5, 8, 16, 33, 64}).Draw(t, "chunk"),
	}
	s.Len = rapid.IntRange(1, int(3*s.Chunk)).Draw(t, "len")
	to := s.From + 1 + uint64(s.Len)
	s.Peers = []C18Peer{{Tail: 1, Head: c18ChainLen, SlowCall: -1, DisconnectAtMs: -1}}
	n := rapid.IntRange(0, 4).Draw(t, "nothers")
	for i := 0; i < n; i++ {
		p := C18Peer{Tail: 1, SlowCall: -1, DisconnectAtMs: -1}
		switch rapid.IntRange(0, 5).Draw(t, "avail") {
		case 0: // everything
			p.Head = c18ChainLen
		case 1: // head below the origin: NOT_FOUND
			p.Head = rapid.Uint64Range(1, s.From).Draw(t, "lowhead")
		case 2, 3: // a prefix of the range
			p.Head = rapid.Uint64Range(s.From+1, to-1).Draw(t, "prefixhead")
		case 4: // pruned: tail inside or above the range
			p.Head = c18ChainLen
			p.Tail = rapid.Uint64Range(s.From+1, to+3).Draw(t, "tail")
		default:
			p.Head = rapid.Uint64Range(1, c18ChainLen).Draw(t, "anyhead")
		}
		switch rapid.IntRange(0, 5).Draw(t, "fault") {
		case 0:
			p.SlowCall = rapid.SampledFrom([]int{0, 0, 0, 1, 2}).Draw(t, "slowcall")
		case 1:
			p.DisconnectAtMs = rapid.SampledFrom([]int{0, 1, 2, 5, 50, 900, 1100}).Draw(t, "disc")
		case 2:
			p.BreakAfter = rapid.IntRange(1, 5).Draw(t, "breakafter")
		}
		s.Peers = append(s.Peers, p)
	}
	s.Metrics = rapid.IntRange(0, 3).Draw(t, "metrics") == 0
	s.Bounce = rapid.SampledFrom([]int{0, 0, 0, 1, 2}).Draw(t, "bounce")
	// no Restart here: the peer tracker is not restartable upstream (its context is created by the constructor), so a
	// restarted Exchange never learns about peers connecting later; Head/Get (C09, C13) do not depend on it
	return s
}

// slowStore is the honest server's store with benign slowness: every call costs 1ms of virtual time
// (so that no client retry loop can spin without the clock advancing) and one drawn range call is
// answered only after the client's request timeout.
type slowStore struct {
	header.Store[*vh.Header]
	mu       sync.Mutex
	calls    int
	slowCall int
	slowFor  time.Duration
	slowHit  bool
}

func (s *slowStore) GetRange(ctx context.Context, from, to uint64) ([]*vh.Header, error) {
	s.mu.Lock()
	idx := s.calls
	s.calls++
	slow := idx == s.slowCall
	if slow {
		s.slowHit = true
	}
	s.mu.Unlock()
	time.Sleep(time.Millisecond)
	if slow {
		time.Sleep(s.slowFor)
	}
	return s.Store.GetRange(ctx, from, to)
}

func (s *slowStore) Head(ctx context.Context, o ...header.HeadOption[*vh.Header]) (*vh.Header, error) {
	time.Sleep(time.Millisecond)
	return s.Store.Head(ctx, o...)
}

func (s *slowStore) HasAt(ctx context.Context, h uint64) bool {
	time.Sleep(time.Millisecond)
	return s.Store.HasAt(ctx, h)
}

func runC18(t *testing.T, s C18Scenario) (res Result) {
	exchangeMetrics, exchangeRestart = s.Metrics, s.Restart
	defer func() { exchangeMetrics, exchangeRestart = false, false }()
	bubble(t, func() {
		const timeout = time.Second
		chain := vh.ChainSpec{ChainID: "c18", N: c18ChainLen, StartMs: -1_000_000}.Build()
		ne, err := newNet(len(s.Peers) + 1)
		if err != nil {
			res.failf("HARNESS: %v", err)
			return
		}
		var stores []*store.Store[*vh.Header]
		var slows []*slowStore
		var servers []*p2p.ExchangeServer[*vh.Header]
		var ids []peer.ID
		for i, p := range s.Peers {
			st, _, err := newChainStore(chain, p.Tail, p.Head)
			if err != nil {
				res.failf("HARNESS: store: %v", err)
				return
			}
			stores = append(stores, st)
			sl := &slowStore{Store: st, slowCall: p.SlowCall, slowFor: timeout + 200*time.Millisecond}
			slows = append(slows, sl)
			srvHost := ne.hosts[i+1]
			if p.BreakAfter > 0 {
				srvHost = &breakHost{Host: srvHost, n: p.BreakAfter}
			}
			srv, err := p2p.NewExchangeServer[*vh.Header](srvHost, sl, p2p.WithNetworkID[p2p.ServerParameters](netID))
			if err != nil {
				res.failf("HARNESS: server: %v", err)
				return
			}
			_ = startScoped(srv.Start)
			servers = append(servers, srv)
			ids = append(ids, ne.hosts[i+1].ID())
		}
		ex, err := newClient(ne.hosts[0], ids[:1], chain.Spec.ChainID,
			p2p.WithRequestTimeout[p2p.ClientParameters](timeout),
			p2p.WithMaxHeadersPerRangeRequest[p2p.ClientParameters](s.Chunk))
		if err != nil {
			res.failf("HARNESS: client: %v", err)
			return
		}
		defer func() {
			time.Sleep(5 * time.Second)
			synctest.Wait()
			c2, cn := vctx(10 * time.Second)
			_ = ex.Stop(c2)
			cn()
			for _, srv := range servers {
				_ = srv.Stop(context.Background())
			}
			ne.close()
			for _, st := range stores {
				stopStore(st)
			}
		}()
		if err := ne.connectAll(); err != nil {
			res.failf("HARNESS: connect: %v", err)
			return
		}
		synctest.Wait()
		for b := 0; b < s.Bounce; b++ {
			if err := ne.mn.DisconnectPeers(ne.hosts[0].ID(), ne.hosts[1].ID()); err != nil {
				res.failf("HARNESS: disconnect: %v", err)
				return
			}
			time.Sleep(10 * time.Millisecond)
			synctest.Wait()
			if _, err := ne.mn.ConnectPeers(ne.hosts[0].ID(), ne.hosts[1].ID()); err != nil {
				res.failf("HARNESS: reconnect: %v", err)
				return
			}
			time.Sleep(10 * time.Millisecond)
			synctest.Wait()
			res.label("connection_bounced")
		}

		for i, p := range s.Peers {
			if p.DisconnectAtMs >= 0 {
				i, p := i, p
				go func() {
					time.Sleep(time.Duration(p.DisconnectAtMs) * time.Millisecond)
					_ = ne.mn.DisconnectPeers(ne.hosts[0].ID(), ne.hosts[i+1].ID())
				}()
			}
		}

		from := chain.At(s.From)
		to := s.From + 1 + uint64(s.Len)
		ctx, cancel := vctx(20 * time.Second)
		defer cancel()
		t0 := time.Now()
		got, gerr := ex.GetRangeByHeight(ctx, from, to)
		elapsed := time.Since(t0)

		nSlow, nDisc, nPartial, nNotFound, nBreak := 0, 0, 0, 0, 0
		for i, p := range s.Peers {
			if slows[i].slowHit {
				nSlow++
			}
			if p.DisconnectAtMs >= 0 || p.BreakAfter > 0 {
				nDisc++
			}
			if p.BreakAfter > 0 {
				nBreak++
			}
			if p.Head < s.From+1 || p.Tail > s.From+1 {
				nNotFound++
			} else if p.Head < to-1 {
				nPartial++
			}
		}
		chunks := (uint64(s.Len) + s.Chunk - 1) / s.Chunk
		faults := nSlow + nDisc + nPartial + nNotFound
		res.NonTrivial = (chunks >= 2 && faults >= 1) || uint64(s.Len)%s.Chunk != 0 || s.Chunk == 1 || s.Split
		res.SigKey = []any{s.Len, s.Chunk, len(s.Peers), nSlow, nDisc, nPartial, nNotFound, s.From % 3}
		res.label(fmt.Sprintf("chunks>=2:%v", chunks >= 2), fmt.Sprintf("peers=%d", len(s.Peers)))
		if nSlow > 0 {
			res.label("timeout_once")
		}
		if s.Split {
			res.label("no_single_capable_peer")
		}
		if nDisc > 0 {
			res.label("disconnect")
		}
		if nBreak > 0 {
			res.label("stream_breaks_mid_answer")
		}
		if nPartial > 0 {
			res.label("prefix_only_peer")
		}
		if nNotFound > 0 {
			res.label("not_found_peer")
		}
		res.Obs = map[string]any{"n_got": len(got), "err": fmt.Sprint(gerr), "elapsed": elapsed.String()}

		if gerr != nil {
			res.failf("GetRangeByHeight(from %d, to %d) failed although a fault-free peer holds the whole range: %v (after %v)", s.From, to, gerr, elapsed)
			return
		}
		if len(got) != s.Len {
			res.failf("GetRangeByHeight(from %d, to %d) returned %d headers, want %d", s.From, to, len(got), s.Len)
			return
		}
		for i, h := range got {
			if h == nil || h.H != s.From+1+uint64(i) || !chain.IsCanonical(h) {
				res.failf("element %d is %v, want the chain's header at %d", i, h, s.From+1+uint64(i))
				return
			}
		}
		bound := time.Duration(len(s.Peers)+1)*(timeout+300*time.Millisecond) + 2*time.Second
		if elapsed > bound {
			res.failf("call took %v of virtual time (bound from injected delays: %v)", elapsed, bound)
			return
		}

		if s.Split {
			return
		}
		// round trips through the wire encoding from the trusted (capable) peer
		hd, err := ex.Head(ctx)
		if err != nil || !vh.Equal(hd, chain.At(c18ChainLen)) {
			res.failf("Head() = (%v, %v), the server's head is %v", hd, err, chain.At(c18ChainLen))
			return
		}
		want := chain.At(s.From + uint64(s.Len)%7 + 1)
		g1, err := ex.Get(ctx, want.Hash())
		if err != nil || !vh.Equal(g1, want) || g1.T != want.T || g1.Span != want.Span || string(g1.Prev) != string(want.Prev) {
			res.failf("Get(hash of %d) = (%v, %v), want %v", want.H, g1, err, want)
			return
		}
		g2, err := ex.GetByHeight(ctx, want.H)
		if err != nil || !vh.Equal(g2, want) {
			res.failf("GetByHeight(%d) = (%v, %v), want %v", want.H, g2, err, want)
			return
		}
	})
	return res
}

func TestC18(t *testing.T)       { check(t, "C18", genC18, runC18) }
func TestC18Replay(t *testing.T) { replay(t, "C18", runC18) }
