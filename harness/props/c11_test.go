package props

import (
	"context"
	"crypto/sha256"
	"errors"
	"fmt"
	"sync"
	"testing"
	"testing/synctest"
	"time"

	pubsub "github.com/libp2p/go-libp2p-pubsub"
	pubsub_pb "github.com/libp2p/go-libp2p-pubsub/pb"
	"github.com/libp2p/go-libp2p/core/peer"
	"github.com/libp2p/go-libp2p/core/protocol"
	"pgregory.net/rapid"

	header "github.com/celestiaorg/go-header"
	"github.com/celestiaorg/go-header/p2p"

	"verif/harness/vh"
)

// C11 — Subscriber delivers/relays a gossip message only if it decodes and verifies.

type C11Msg struct {
	Payload  string `json:"payload"` // valid | bad_validate | truncated | bitflip | empty | random | wrong_chain
	At       int    `json:"at"`      // which chain header (1..20) the payload is derived from
	Flip     int    `json:"flip"`    // byte position for bitflip / truncation point
	Rand     []byte `json:"rand,omitempty"`
	Verifier string `json:"verifier"` // nil | soft | hard | wrapped_soft | wrapped_hard | joined_soft | plain | panic
	// direct engine only
	PresetData string `json:"preset_data,omitempty"` // "" | header | wrong_type  (msg.ValidatorData set by a local publish)
	Unset      string `json:"unset,omitempty"`       // "" | set_later | ctx_first : verifier not registered when the message arrives
	// e2e engine only: the node under test publishes the header itself through Subscriber.Broadcast
	Local bool `json:"local,omitempty"`
}

type C11Scenario struct {
	Msgs []C11Msg `json:"msgs"`
	// Restart (e2e engine): the Subscriber is stopped and started again before the messages arrive
	Restart bool `json:"restart,omitempty"`
	// TwoSubs (e2e engine): two Subscriptions of the same Subscriber; each must yield every accepted header
	TwoSubs bool `json:"two_subs,omitempty"`
}

var c11Payloads = []string{"valid", "valid", "valid", "bad_validate", "truncated", "bitflip", "empty", "random", "wrong_chain"}
var c11Verifiers = []string{"nil", "nil", "soft", "hard", "wrapped_soft", "wrapped_hard", "joined_soft", "plain", "panic"}

func genC11Msg(t *rapid.T, direct bool) C11Msg {
	m := C11Msg{
		Payload:  rapid.SampledFrom(c11Payloads).Draw(t, "payload"),
		At:       rapid.IntRange(1, 20).Draw(t, "at"),
		Flip:     rapid.IntRange(0, 80).Draw(t, "flip"),
		Verifier: rapid.SampledFrom(c11Verifiers).Draw(t, "verifier"),
	}
	if m.Payload == "random" {
		m.Rand = rapid.SliceOfN(rapid.Byte(), 1, 60).Draw(t, "rand")
	}
	if direct {
		// a header type with a crashing decode/validate path (direct engine only: the flags are armed around the call)
		switch rapid.IntRange(0, 15).Draw(t, "crashing") {
		case 0:
			m.Payload = "panic_decode"
		case 1:
			m.Payload = "panic_validate"
		}
		switch rapid.IntRange(0, 9).Draw(t, "special") {
		case 0:
			m.PresetData = "header"
		case 1:
			m.PresetData = "wrong_type"
		case 2:
			m.Unset = "set_later"
		case 3:
			m.Unset = "ctx_first"
		}
	}
	return m
}

func genC11Direct(t *rapid.T) C11Scenario {
	return C11Scenario{Msgs: []C11Msg{genC11Msg(t, true)}}
}

func genC11E2E(t *rapid.T) C11Scenario {
	n := rapid.IntRange(1, 6).Draw(t, "nmsgs")
	var s C11Scenario
	s.Restart = rapid.IntRange(0, 3).Draw(t, "restart") == 0
	s.TwoSubs = rapid.Bool().Draw(t, "twosubs")
	for i := 0; i < n; i++ {
		m := genC11Msg(t, false)
		if (m.Payload == "valid" || m.Payload == "bad_validate" || m.Payload == "wrong_chain") && rapid.IntRange(0, 3).Draw(t, "local") == 0 {
			m.Local = true
		}
		s.Msgs = append(s.Msgs, m)
	}
	return s
}

var errC11Leaf = errors.New("c11 verifier leaf error")

func c11VerifierResult(kind string) error {
	switch kind {
	case "nil":
		return nil
	case "soft":
		return &header.VerifyError{Reason: errC11Leaf, SoftFailure: true}
	case "hard":
		return &header.VerifyError{Reason: errC11Leaf}
	case "wrapped_soft":
		return fmt.Errorf("ctx: %w", &header.VerifyError{Reason: errC11Leaf, SoftFailure: true})
	case "wrapped_hard":
		return fmt.Errorf("ctx: %w", &header.VerifyError{Reason: errC11Leaf})
	case "joined_soft":
		return errors.Join(errors.New("other"), &header.VerifyError{Reason: errC11Leaf, SoftFailure: true})
	case "plain":
		return errC11Leaf
	}
	panic("c11: verifier panics")
}

func c11Soft(kind string) bool {
	return kind == "soft" || kind == "wrapped_soft" || kind == "joined_soft"
}

func (m C11Msg) bytes(chain *vh.Chain, salt int) []byte {
	base := chain.At(uint64(m.At)).Clone()
	base.Salt = uint32(1000 + salt) // make every message unique (message ids are content hashes)
	base.Seal()
	switch m.Payload {
	case "valid":
	case "bad_validate":
		base = vh.Variant(base, vh.AdvBadValidate, 1)
	case "wrong_chain":
		base = vh.Variant(base, vh.AdvWrongChain, 1)
	case "panic_decode":
		base = vh.Variant(base, vh.AdvPanicDecode, 1)
	case "panic_validate":
		base = vh.Variant(base, vh.AdvPanicValidate, 1)
	case "empty":
		return []byte{}
	case "random":
		return append([]byte{byte(salt)}, m.Rand...)
	}
	b, _ := base.MarshalBinary()
	switch m.Payload {
	case "truncated":
		return b[:m.Flip%len(b)]
	case "bitflip":
		b[m.Flip%len(b)] ^= 1 << uint(m.Flip%8)
	}
	return b
}

// c11Expect computes the verdict the statement demands for the payload and verifier outcome.
func c11Expect(data []byte, verifier string) (want pubsub.ValidationResult, decoded *vh.Header) {
	h := new(vh.Header)
	if err := h.UnmarshalBinary(data); err != nil {
		return pubsub.ValidationReject, nil
	}
	if h.Validate() != nil {
		return pubsub.ValidationReject, nil
	}
	switch {
	case verifier == "nil":
		return pubsub.ValidationAccept, h
	case c11Soft(verifier):
		return pubsub.ValidationIgnore, h
	default:
		return pubsub.ValidationReject, h
	}
}

func vrName(v pubsub.ValidationResult) string {
	switch v {
	case pubsub.ValidationAccept:
		return "accept"
	case pubsub.ValidationIgnore:
		return "ignore"
	case pubsub.ValidationReject:
		return "reject"
	}
	return fmt.Sprint(int(v))
}

// ---- direct engine: the topic validator itself ----

func runC11Direct(t *testing.T, s C11Scenario) (res Result) {
	bubble(t, func() {
		chain := vh.ChainSpec{ChainID: "c11", N: 25, StartMs: -1_000_000}.Build()
		m := s.Msgs[0]
		sub, err := p2p.NewSubscriber[*vh.Header](nil, nil, p2p.WithSubscriberNetworkID(netID))
		if err != nil {
			res.failf("HARNESS: %v", err)
			return
		}
		verifierCalls := 0
		var seen *vh.Header
		verifier := func(_ context.Context, h *vh.Header) error {
			verifierCalls++
			seen = h
			return c11VerifierResult(m.Verifier)
		}
		data := m.bytes(chain, 0)
		msg := &pubsub.Message{Message: &pubsub_pb.Message{Data: data}}
		_, decoded := c11Expect(data, "nil") // what the bytes decode to (nil if they do not decode or validate)
		extractOK := decoded != nil
		if m.Payload == "panic_decode" || m.Payload == "panic_validate" {
			// decoding/validating these bytes panics inside the validator: contained and rejected
			extractOK = false
		}
		switch m.PresetData {
		case "header":
			// a local publish attaches the header itself; the bytes are then not decoded again
			// (Broadcast attaches exactly the header it marshalled, valid or not)
			if decoded == nil {
				raw := new(vh.Header)
				if raw.UnmarshalBinary(data) == nil {
					decoded = raw // decodes but fails Validate
				} else {
					decoded = chain.At(uint64(m.At))
				}
			}
			msg.ValidatorData = decoded
			extractOK = decoded.Validate() == nil && m.Payload != "panic_validate" // panic_decode: the bytes are not decoded again
		case "wrong_type":
			msg.ValidatorData = "not a header" // extraction panics: must be contained and rejected
			extractOK = false
		}
		var want pubsub.ValidationResult
		switch {
		case !extractOK:
			want = pubsub.ValidationReject
		case m.Unset == "ctx_first":
			want = pubsub.ValidationIgnore // no verifier before the message's context ends
		case m.Verifier == "nil":
			want = pubsub.ValidationAccept
		case c11Soft(m.Verifier):
			want = pubsub.ValidationIgnore
		default:
			want = pubsub.ValidationReject
		}
		ctx, cancel := context.WithTimeout(context.Background(), time.Second)
		defer cancel()
		switch m.Unset {
		case "":
			_ = sub.SetVerifier(verifier)
		case "set_later":
			go func() {
				time.Sleep(300 * time.Millisecond)
				_ = sub.SetVerifier(verifier)
			}()
		}
		var got pubsub.ValidationResult
		panicked := false
		func() {
			defer func() {
				if r := recover(); r != nil {
					panicked = true
					res.failf("the validator let a panic escape: %v", r)
				}
			}()
			vh.ArmPanics(true)
			defer vh.ArmPanics(false)
			got = sub.VerifVerifyMessage(ctx, peer.ID("sender"), msg)
		}()
		res.NonTrivial = want != pubsub.ValidationAccept || m.Unset == "set_later"
		res.SigKey = []any{m.Payload, m.Verifier, m.PresetData, m.Unset, want}
		res.label("engine=direct", "want="+vrName(want))
		res.Obs = map[string]any{"got": vrName(got), "want": vrName(want), "verifier_calls": verifierCalls}
		if panicked {
			return
		}
		if got != want {
			res.failf("validator verdict %s, the statement demands %s (payload %s, verifier %s, preset %q, unset %q)", vrName(got), vrName(want), m.Payload, m.Verifier, m.PresetData, m.Unset)
			return
		}
		if got == pubsub.ValidationAccept {
			vd, ok := msg.ValidatorData.(*vh.Header)
			if !ok || vd == nil {
				res.failf("accepted message carries no header for the subscriptions (ValidatorData=%T)", msg.ValidatorData)
				return
			}
			if decoded != nil && !vh.Equal(vd, decoded) {
				res.failf("accepted message carries header %v, the payload decodes to %v", vd, decoded)
				return
			}
			if seen == nil || !vh.Equal(seen, vd) {
				res.failf("the verifier was shown %v but %v is delivered", seen, vd)
			}
		}
		if !extractOK && verifierCalls > 0 {
			res.failf("the verifier was called for a payload that does not decode/validate")
		}
	})
	return res
}

func mustBin(h *vh.Header) []byte { b, _ := h.MarshalBinary(); return b }

// ---- end-to-end engine: gossipsub on a line A - B - C ----

type c11Tracer struct {
	mu       sync.Mutex
	rejected map[string]string // msg id -> reason
	deliv    map[string]bool
}

func (t *c11Tracer) OnNewOutboundStream(peer.ID, protocol.ID) {}
func (t *c11Tracer) OnClosedOutboundStream(peer.ID)           {}
func (t *c11Tracer) AddPeer(peer.ID, protocol.ID)             {}
func (t *c11Tracer) RemovePeer(peer.ID)                       {}
func (t *c11Tracer) Join(string)                              {}
func (t *c11Tracer) Leave(string)                             {}
func (t *c11Tracer) Graft(peer.ID, string)                    {}
func (t *c11Tracer) Prune(peer.ID, string)                    {}
func (t *c11Tracer) ValidateMessage(*pubsub.Message)          {}
func (t *c11Tracer) DuplicateMessage(*pubsub.Message)         {}
func (t *c11Tracer) ThrottlePeer(peer.ID)                     {}
func (t *c11Tracer) RecvRPC(*pubsub.RPC)                      {}
func (t *c11Tracer) SendRPC(*pubsub.RPC, peer.ID)             {}
func (t *c11Tracer) DropRPC(*pubsub.RPC, peer.ID)             {}
func (t *c11Tracer) UndeliverableMessage(*pubsub.Message)     {}
func (t *c11Tracer) DeliverMessage(m *pubsub.Message) {
	t.mu.Lock()
	t.deliv[c11MsgID(m.Message)] = true
	t.mu.Unlock()
}
func (t *c11Tracer) RejectMessage(m *pubsub.Message, reason string) {
	t.mu.Lock()
	t.rejected[c11MsgID(m.Message)] = reason
	t.mu.Unlock()
}

func c11MsgID(m *pubsub_pb.Message) string {
	s := sha256.Sum256(m.Data)
	return string(s[:])
}

func runC11E2E(t *testing.T, s C11Scenario) (res Result) {
	bubble(t, func() {
		chain := vh.ChainSpec{ChainID: "c11", N: 25, StartMs: -1_000_000}.Build()
		ne, err := newNet(3)
		if err != nil {
			res.failf("HARNESS: %v", err)
			return
		}
		ctx, cancel := context.WithCancel(context.Background())
		defer func() {
			cancel()
			ne.close()
			synctest.Wait()
		}()
		// line topology: A(0) - B(1) - C(2)
		if _, err := ne.mn.LinkPeers(ne.hosts[0].ID(), ne.hosts[1].ID()); err != nil {
			res.failf("HARNESS: %v", err)
			return
		}
		if _, err := ne.mn.LinkPeers(ne.hosts[1].ID(), ne.hosts[2].ID()); err != nil {
			res.failf("HARNESS: %v", err)
			return
		}
		tr := &c11Tracer{rejected: map[string]string{}, deliv: map[string]bool{}}
		mk := func(i int, opts ...pubsub.Option) *pubsub.PubSub {
			all := append([]pubsub.Option{pubsub.WithMessageIdFn(c11MsgID), pubsub.WithMessageSignaturePolicy(pubsub.StrictNoSign)}, opts...)
			ps, err := pubsub.NewGossipSub(ctx, ne.hosts[i], all...)
			if err != nil {
				res.failf("HARNESS: gossipsub: %v", err)
			}
			return ps
		}
		psA, psB, psC := mk(0), mk(1, pubsub.WithRawTracer(tr)), mk(2)
		if res.Verdict != "" {
			return
		}
		topicID := p2p.PubsubTopicID(netID)
		sub, err := p2p.NewSubscriber[*vh.Header](psB, c11MsgID, p2p.WithSubscriberNetworkID(netID))
		if err != nil {
			res.failf("HARNESS: %v", err)
			return
		}
		// the verifier's outcome is scripted per message (by content)
		var mu sync.Mutex
		outcome := map[string]string{}
		if err := sub.SetVerifier(func(_ context.Context, h *vh.Header) error {
			mu.Lock()
			k := outcome[fmtHash(h.Hash())]
			mu.Unlock()
			if k == "" {
				k = "plain"
			}
			return c11VerifierResult(k)
		}); err != nil {
			res.failf("HARNESS: %v", err)
			return
		}
		if err := startScoped(sub.Start); err != nil {
			res.failf("HARNESS: subscriber start: %v", err)
			return
		}
		defer sub.Stop(context.Background()) //nolint:errcheck
		if s.Restart {
			// a stopped and restarted Subscriber keeps its verifier and validates as before
			if err := sub.Stop(ctx); err != nil {
				res.failf("Subscriber.Stop failed: %v", err)
				return
			}
			if err := startScoped(sub.Start); err != nil {
				res.failf("Subscriber.Start after Stop failed: %v", err)
				return
			}
			res.label("restarted")
		}
		subscription, err := sub.Subscribe()
		if err != nil {
			res.failf("HARNESS: %v", err)
			return
		}
		defer subscription.Cancel()
		var subscription2 header.Subscription[*vh.Header]
		if s.TwoSubs {
			subscription2, err = sub.Subscribe()
			if err != nil {
				res.failf("second Subscribe: %v", err)
				return
			}
			defer subscription2.Cancel()
			res.label("two_subscriptions")
		}
		topicA, err := psA.Join(topicID)
		if err != nil {
			res.failf("HARNESS: %v", err)
			return
		}
		topicC, err := psC.Join(topicID)
		if err != nil {
			res.failf("HARNESS: %v", err)
			return
		}
		subC, err := topicC.Subscribe()
		if err != nil {
			res.failf("HARNESS: %v", err)
			return
		}
		if _, err := ne.mn.ConnectPeers(ne.hosts[0].ID(), ne.hosts[1].ID()); err != nil {
			res.failf("HARNESS: %v", err)
			return
		}
		if _, err := ne.mn.ConnectPeers(ne.hosts[1].ID(), ne.hosts[2].ID()); err != nil {
			res.failf("HARNESS: %v", err)
			return
		}
		// let subscriptions propagate and the mesh form (heartbeats, virtual time)
		for i := 0; i < 1200; i++ {
			if len(topicA.ListPeers()) >= 1 && len(psB.ListPeers(topicID)) >= 1 && len(topicC.ListPeers()) >= 1 {
				break
			}
			time.Sleep(100 * time.Millisecond)
		}
		if len(topicA.ListPeers()) < 1 || len(psB.ListPeers(topicID)) < 1 || len(topicC.ListPeers()) < 1 {
			// the scenario could not be set up (about one in 20 000 e2e scenarios: the mocknet gossip mesh does
			// not form, with or without a restart of the Subscriber): excluded and counted, not judged
			evidFor("C11").Exclude("gossipsub mesh did not form within 2 virtual minutes")
			res.label("excluded_mesh_did_not_form")
			return
		}
		time.Sleep(3 * time.Second)

		var gotB, gotB2 []*vh.Header
		var sub2Panic any
		var gotC [][]byte
		var wg sync.WaitGroup
		rctx, rcancel := context.WithCancel(ctx)
		wg.Add(2)
		go func() {
			defer wg.Done()
			for {
				h, err := subscription.NextHeader(rctx)
				if err != nil {
					return
				}
				mu.Lock()
				gotB = append(gotB, h)
				mu.Unlock()
			}
		}()
		if subscription2 != nil {
			wg.Add(1)
			go func() {
				defer wg.Done()
				defer func() {
					if r := recover(); r != nil {
						mu.Lock()
						sub2Panic = r
						mu.Unlock()
					}
				}()
				for {
					h, err := subscription2.NextHeader(rctx)
					if err != nil {
						return
					}
					mu.Lock()
					gotB2 = append(gotB2, h)
					mu.Unlock()
				}
			}()
		}
		go func() {
			defer wg.Done()
			for {
				m, err := subC.Next(rctx)
				if err != nil {
					return
				}
				mu.Lock()
				gotC = append(gotC, m.Data)
				mu.Unlock()
			}
		}()

		type sent struct {
			data []byte
			want pubsub.ValidationResult
			dec  *vh.Header
			m    C11Msg
		}
		var sents []sent
		seenData := map[string]bool{}
		for i, m := range s.Msgs {
			data := m.bytes(chain, i)
			if seenData[string(data)] {
				continue // identical payloads are de-duplicated by content ids
			}
			seenData[string(data)] = true
			want, dec := c11Expect(data, m.Verifier)
			if dec != nil {
				mu.Lock()
				outcome[fmtHash(dec.Hash())] = m.Verifier
				mu.Unlock()
			}
			if m.Local {
				// the node under test publishes the header itself; Broadcast attaches it to the message, the
				// validator must still put it through Validate and the verifier
				hdr := new(vh.Header)
				if err := hdr.UnmarshalBinary(data); err != nil {
					res.failf("HARNESS: local header does not decode: %v", err)
					rcancel()
					wg.Wait()
					return
				}
				if dec == nil {
					mu.Lock()
					outcome[fmtHash(hdr.Hash())] = m.Verifier
					mu.Unlock()
				}
				berr := sub.Broadcast(ctx, hdr)
				if want == pubsub.ValidationAccept && berr != nil {
					res.failf("message #%d (payload %s, verifier %s): Broadcast of a valid, verified header failed: %v", i, m.Payload, m.Verifier, berr)
				}
				if want != pubsub.ValidationAccept && berr == nil {
					res.failf("message #%d (payload %s, verifier %s): Broadcast returned nil for a header that must be %sed", i, m.Payload, m.Verifier, vrName(want))
				}
			} else if err := topicA.Publish(ctx, data); err != nil {
				res.failf("HARNESS: publish: %v", err)
				rcancel()
				wg.Wait()
				return
			}
			sents = append(sents, sent{data, want, dec, m})
			time.Sleep(200 * time.Millisecond)
		}
		time.Sleep(2 * time.Second)
		synctest.Wait()
		rcancel()
		wg.Wait()

		nonAccept := 0
		for i, sn := range sents {
			id := c11MsgID(&pubsub_pb.Message{Data: sn.data})
			tr.mu.Lock()
			reason, wasRejected := tr.rejected[id]
			delivered := tr.deliv[id]
			tr.mu.Unlock()
			inB := false
			for _, h := range gotB {
				if sn.dec != nil && vh.Equal(h, sn.dec) {
					inB = true
				}
			}
			inB2 := !s.TwoSubs
			for _, h := range gotB2 {
				if sn.dec != nil && vh.Equal(h, sn.dec) {
					inB2 = true
				}
			}
			if sub2Panic != nil {
				res.failf("the second Subscription's NextHeader panicked: %v", sub2Panic)
				break
			}
			inC := false
			for _, d := range gotC {
				if string(d) == string(sn.data) {
					inC = true
				}
			}
			tag := fmt.Sprintf("message #%d (payload %s, verifier %s, local %v)", i, sn.m.Payload, sn.m.Verifier, sn.m.Local)
			switch sn.want {
			case pubsub.ValidationAccept:
				if !inB {
					res.failf("%s: valid and verified, but the subscription never yielded its header (rejected=%v %q)", tag, wasRejected, reason)
				} else if !inB2 {
					res.failf("%s: valid and verified, the first Subscription yielded its header but the second one of the same Subscriber did not", tag)
				} else if !inC {
					res.failf("%s: valid and verified, but it was not relayed to the next peer", tag)
				} else if !delivered && !sn.m.Local {
					res.failf("%s: not traced as delivered", tag)
				}
			default:
				nonAccept++
				if inB || (s.TwoSubs && inB2) {
					res.failf("%s: delivered to the subscription although it must be %sed", tag, vrName(sn.want))
				} else if inC {
					res.failf("%s: relayed to the next peer although it must be %sed", tag, vrName(sn.want))
				} else if sn.m.Local {
					// a locally published message that fails validation is reported to the caller of Broadcast
				} else if sn.want == pubsub.ValidationIgnore && reason != pubsub.RejectValidationIgnored {
					res.failf("%s: soft verification failure must be ignored without penalty, traced as %q", tag, reason)
				} else if sn.want == pubsub.ValidationReject && reason != pubsub.RejectValidationFailed {
					res.failf("%s: must be rejected (validation failed), traced as %q", tag, reason)
				}
			}
			if res.Verdict != "" {
				break
			}
		}
		res.NonTrivial = nonAccept > 0
		res.label("engine=e2e", fmt.Sprintf("msgs=%d", len(sents)))
		res.Obs = map[string]any{"delivered_B": len(gotB), "relayed_C": len(gotC)}
	})
	return res
}

func TestC11(t *testing.T)    { check(t, "C11", genC11Direct, runC11Direct) }
func TestC11E2E(t *testing.T) { check(t, "C11", genC11E2E, runC11E2E) }
func TestC11Replay(t *testing.T) {
	replay(t, "C11", func(t *testing.T, s C11Scenario) Result {
		if len(s.Msgs) == 1 && (s.Msgs[0].PresetData != "" || s.Msgs[0].Unset != "") {
			return runC11Direct(t, s)
		}
		r := runC11E2E(t, s)
		if r.Verdict == "" && len(s.Msgs) == 1 {
			return runC11Direct(t, s)
		}
		return r
	})
}

// FuzzC11Payload: arbitrary bytes through the validator with an always-accepting verifier:
// accepted => the bytes decode into exactly the delivered header.
func FuzzC11Payload(f *testing.F) {
	chain := vh.ChainSpec{ChainID: "c11", N: 5, StartMs: -1_000_000}.Build()
	f.Add(mustBin(chain.At(1)))
	f.Add(mustBin(vh.Variant(chain.At(2), vh.AdvBadValidate, 1)))
	f.Add([]byte{})
	f.Add([]byte{0xC3, 'v', 'h', 1, 3})
	col := evidFor("C11")
	f.Fuzz(func(t *testing.T, data []byte) {
		sub, err := p2p.NewSubscriber[*vh.Header](nil, nil)
		if err != nil {
			t.Fatal(err)
		}
		_ = sub.SetVerifier(func(context.Context, *vh.Header) error { return nil })
		msg := &pubsub.Message{Message: &pubsub_pb.Message{Data: data}}
		got := sub.VerifVerifyMessage(context.Background(), peer.ID("x"), msg)
		col.AddExtra("fuzz_execs", 1)
		want, dec := c11Expect(data, "nil")
		if got != want {
			t.Fatalf("C11 violated: verdict %s, want %s for payload %x", vrName(got), vrName(want), data)
		}
		if got == pubsub.ValidationAccept {
			vd, ok := msg.ValidatorData.(*vh.Header)
			if !ok || !vh.Equal(vd, dec) {
				t.Fatalf("C11 violated: delivered value is not the decoded header for payload %x", data)
			}
		}
	})
}
