package props

import (
	"bytes"
	"context"
	"errors"
	"fmt"
	"sort"
	"strconv"
	"strings"
	"sync"
	"time"

	header "github.com/celestiaorg/go-header"
	"github.com/celestiaorg/go-header/store"
	"github.com/ipfs/go-datastore"
	"pgregory.net/rapid"

	"verif/harness/memds"
	"verif/harness/vh"
)

// ---- configuration ----

type StoreCfg struct {
	Batch      int  `json:"batch"`
	StoreCache int  `json:"store_cache"`
	IndexCache int  `json:"index_cache"`
	CtxAware   bool `json:"ctx_aware"`
	Metrics    bool `json:"metrics,omitempty"` // store.WithMetrics: must not change any behaviour
}

func genStoreCfg(t *rapid.T) StoreCfg {
	c := StoreCfg{
		Batch:      rapid.SampledFrom([]int{1, 1, 2, 3, 4, 8, 64}).Draw(t, "batch"),
		StoreCache: rapid.SampledFrom([]int{2, 2, 3, 8, 512}).Draw(t, "scache"),
		IndexCache: rapid.SampledFrom([]int{2, 2, 3, 8, 2048}).Draw(t, "icache"),
		CtxAware:   rapid.Bool().Draw(t, "ctxaware"),
	}
	// size 1 is refused by the 2Q cache constructor: generate it rarely, it only shows "rejected configuration"
	switch rapid.IntRange(0, 39).Draw(t, "size1") {
	case 0:
		c.StoreCache = 1
	case 1:
		c.IndexCache = 1
	}
	c.Metrics = rapid.IntRange(0, 3).Draw(t, "metrics") == 0
	return c
}

func (c StoreCfg) opts() []store.Option {
	o := []store.Option{store.WithWriteBatchSize(c.Batch), store.WithStoreCacheSize(c.StoreCache), store.WithIndexCacheSize(c.IndexCache)}
	if c.Metrics {
		o = append(o, store.WithMetrics())
	}
	return o
}

const storePrefix = "/headers"

// ---- model ----

// storeModel is the reference model of the Store: the set of stored heights of one canonical
// chain and the anchor run [T,H].
type storeModel struct {
	stored map[uint64]bool
	has    bool
	H, T   uint64
}

func newStoreModel() *storeModel { return &storeModel{stored: map[uint64]bool{}} }

func (m *storeModel) clone() *storeModel {
	c := &storeModel{stored: map[uint64]bool{}, has: m.has, H: m.H, T: m.T}
	for k := range m.stored {
		c.stored[k] = true
	}
	return c
}

// appendBatch applies one Append call (heights in call order).
func (m *storeModel) appendBatch(hs []uint64) {
	if len(hs) == 0 {
		return
	}
	if !m.has {
		m.has = true
		m.H, m.T = hs[len(hs)-1], hs[0]
	}
	for _, h := range hs {
		m.stored[h] = true
	}
	m.settle()
}

func (m *storeModel) settle() {
	if !m.has {
		return
	}
	for m.stored[m.H+1] {
		m.H++
	}
	for m.T > 1 && m.stored[m.T-1] {
		m.T--
	}
}

// deleteValid reports whether the statement allows DeleteRange(from,to).
func (m *storeModel) deleteValid(from, to uint64) (valid, whole bool) {
	if !m.has || from >= to {
		return false, false
	}
	prefix := from == m.T && to <= m.H+1
	suffix := to == m.H+1 && from >= m.T
	return prefix || suffix, prefix && suffix
}

// deleteRange applies a valid deletion.
func (m *storeModel) deleteRange(from, to uint64) {
	_, whole := m.deleteValid(from, to)
	for h := from; h < to; h++ {
		delete(m.stored, h)
	}
	switch {
	case whole:
		m.has = false
		m.H, m.T = 0, 0
	case from == m.T:
		m.T = to
	default:
		m.H = from - 1
	}
}

func (m *storeModel) maxStored() uint64 {
	var mx uint64
	for h := range m.stored {
		if h > mx {
			mx = h
		}
	}
	return mx
}

func (m *storeModel) minStored() uint64 {
	var mn uint64
	for h := range m.stored {
		if mn == 0 || h < mn {
			mn = h
		}
	}
	return mn
}

func (m *storeModel) heights() []uint64 {
	hs := make([]uint64, 0, len(m.stored))
	for h := range m.stored {
		hs = append(hs, h)
	}
	sort.Slice(hs, func(i, j int) bool { return hs[i] < hs[j] })
	return hs
}

func (m *storeModel) String() string {
	if !m.has {
		return fmt.Sprintf("empty(orphans=%v)", m.heights())
	}
	return fmt.Sprintf("[T=%d,H=%d] stored=%v", m.T, m.H, compress(m.heights()))
}

func compress(hs []uint64) string {
	var sb strings.Builder
	for i := 0; i < len(hs); {
		j := i
		for j+1 < len(hs) && hs[j+1] == hs[j]+1 {
			j++
		}
		if sb.Len() > 0 {
			sb.WriteByte(',')
		}
		if j > i {
			fmt.Fprintf(&sb, "%d-%d", hs[i], hs[j])
		} else {
			fmt.Fprintf(&sb, "%d", hs[i])
		}
		i = j + 1
	}
	return sb.String()
}

// ---- environment ----

type storeEnv struct {
	cfg   StoreCfg
	chain *vh.Chain
	mem   *memds.Mem
	ds    datastore.Batching
	st    *store.Store[*vh.Header]
	m     *storeModel
	// rejected is set when the configuration was refused by the constructor.
	rejected error
}

func newStoreEnv(cfg StoreCfg, chainLen int) *storeEnv {
	spec := vh.ChainSpec{ChainID: "store", N: chainLen, StartMs: -int64(chainLen+100) * 1000}
	e := &storeEnv{cfg: cfg, chain: spec.Build(), mem: memds.New(), m: newStoreModel()}
	e.mem.Record = true
	e.ds = memds.Wrap(e.mem, cfg.CtxAware)
	return e
}

// storePanics collects panics of the store's own goroutines (flush loop) handed over by the store's
// verif panic sink, so that they are attributed to the running scenario instead of killing the process.
var storePanics struct {
	mu   sync.Mutex
	list []string
}

func init() {
	store.VerifSetPanicSink(func(where string, r any) {
		storePanics.mu.Lock()
		storePanics.list = append(storePanics.list, fmt.Sprintf("%s: %v", where, r))
		storePanics.mu.Unlock()
	})
}

// takeStorePanics returns and clears the panics recorded so far.
func takeStorePanics() []string {
	storePanics.mu.Lock()
	defer storePanics.mu.Unlock()
	out := storePanics.list
	storePanics.list = nil
	return out
}

// open creates and starts a Store over the environment's datastore.
func (e *storeEnv) open(ctx context.Context) error {
	takeStorePanics()
	st, err := store.NewStore[*vh.Header](e.ds, e.cfg.opts()...)
	if err != nil {
		e.rejected = err
		return err
	}
	if err := startScoped(st.Start); err != nil {
		return fmt.Errorf("Start: %w", err)
	}
	e.st = st
	return nil
}

func vctx(d time.Duration) (context.Context, context.CancelFunc) {
	return context.WithTimeout(context.Background(), d)
}

// heightsOf maps headers to heights.
func heightsOf(hs []*vh.Header) []uint64 {
	out := make([]uint64, len(hs))
	for i, h := range hs {
		out[i] = h.H
	}
	return out
}

// checkStore compares every observable of the store with the model. It assumes writes are synced.
func (e *storeEnv) checkStore(tag string) string {
	return checkStoreAgainst(e.st, e.m, e.chain, tag, true)
}

func checkStoreAgainst(st *store.Store[*vh.Header], m *storeModel, chain *vh.Chain, tag string, checkHeight bool) string {
	if ps := takeStorePanics(); len(ps) > 0 {
		return fmt.Sprintf("%s: a goroutine of the store panicked: %s", tag, ps[0])
	}
	ctx, cancel := vctx(time.Hour)
	defer cancel()
	head, herr := st.Head(ctx)
	tail, terr := st.Tail(ctx)
	if !m.has {
		if !errors.Is(herr, header.ErrEmptyStore) || !errors.Is(terr, header.ErrEmptyStore) {
			return fmt.Sprintf("%s: store should be empty but Head=(%v,%v) Tail=(%v,%v); model %v", tag, head, herr, tail, terr, m)
		}
	} else {
		if herr != nil || terr != nil {
			return fmt.Sprintf("%s: Head err=%v Tail err=%v; model %v", tag, herr, terr, m)
		}
		if head.H != m.H || tail.H != m.T {
			return fmt.Sprintf("%s: Head=%d Tail=%d, model %v", tag, head.H, tail.H, m)
		}
		if !chain.IsCanonical(head) || !chain.IsCanonical(tail) {
			return fmt.Sprintf("%s: Head/Tail are not the chain's headers", tag)
		}
		if tail.H > head.H {
			return fmt.Sprintf("%s: Tail %d > Head %d", tag, tail.H, head.H)
		}
		if checkHeight && st.Height() != head.H {
			return fmt.Sprintf("%s: Height()=%d but Head().Height()=%d", tag, st.Height(), head.H)
		}
	}
	lo, hi := m.minStored(), m.maxStored()
	if lo > 1 {
		lo--
	}
	if lo == 0 {
		lo = 1
	}
	hi += 2
	if hi > uint64(len(chain.Headers)) {
		hi = uint64(len(chain.Headers))
	}
	for h := lo; h <= hi; h++ {
		want := chain.At(h)
		inRange := m.has && h >= m.T && h <= m.H
		if got := st.HasAt(ctx, h); got != inRange {
			return fmt.Sprintf("%s: HasAt(%d)=%v, model %v", tag, h, got, m)
		}
		if m.stored[h] {
			got, err := st.GetByHeight(ctx, h)
			if err != nil {
				return fmt.Sprintf("%s: GetByHeight(%d) failed: %v; model %v", tag, h, err, m)
			}
			if got.H != h || !vh.Equal(got, want) {
				return fmt.Sprintf("%s: GetByHeight(%d) returned %v", tag, h, got)
			}
			g2, err := st.Get(ctx, want.Hash())
			if err != nil || !vh.Equal(g2, want) {
				return fmt.Sprintf("%s: Get(hash of %d) = (%v,%v)", tag, h, g2, err)
			}
			ok, err := st.Has(ctx, want.Hash())
			if err != nil || !ok {
				return fmt.Sprintf("%s: Has(hash of %d) = (%v,%v)", tag, h, ok, err)
			}
		} else {
			c2, cancel2 := vctx(time.Second)
			got, err := st.GetByHeight(c2, h)
			cancel2()
			if err == nil {
				return fmt.Sprintf("%s: GetByHeight(%d) returned %v although that height is not stored; model %v", tag, h, got, m)
			}
			if g2, err := st.Get(ctx, want.Hash()); err == nil {
				return fmt.Sprintf("%s: Get(hash of %d) returned %v although not stored; model %v", tag, h, g2, m)
			}
			if ok, _ := st.Has(ctx, want.Hash()); ok {
				return fmt.Sprintf("%s: Has(hash of %d) is true although not stored; model %v", tag, h, m)
			}
		}
	}
	if st.HasAt(ctx, 0) {
		return tag + ": HasAt(0) is true"
	}
	return ""
}

// checkRange probes GetRange / GetRangeByHeight for [from,to).
func (e *storeEnv) checkRange(from, to uint64, tag string) string {
	ctx, cancel := vctx(time.Second)
	defer cancel()
	all := from < to && from >= 1
	for h := from; all && h < to; h++ {
		if !e.m.stored[h] {
			all = false
		}
	}
	verify := func(name string, got []*vh.Header, err error) string {
		if err != nil {
			if all {
				return fmt.Sprintf("%s: %s(%d,%d) failed: %v although every height is stored; model %v", tag, name, from, to, err, e.m)
			}
			return ""
		}
		if from >= to {
			return fmt.Sprintf("%s: %s(%d,%d) returned nil error for an empty/inverted range", tag, name, from, to)
		}
		if uint64(len(got)) != to-from {
			return fmt.Sprintf("%s: %s(%d,%d) returned %d headers", tag, name, from, to, len(got))
		}
		for i, g := range got {
			if g == nil || g.H != from+uint64(i) || !e.chain.IsCanonical(g) {
				return fmt.Sprintf("%s: %s(%d,%d)[%d] = %v", tag, name, from, to, i, g)
			}
		}
		return ""
	}
	got, err := e.st.GetRange(ctx, from, to)
	if v := verify("GetRange", got, err); v != "" {
		return v
	}
	if from >= 2 && e.m.stored[from-1] {
		got, err = e.st.GetRangeByHeight(ctx, e.chain.At(from-1), to)
		if v := verify("GetRangeByHeight", got, err); v != "" {
			return v
		}
	}
	return ""
}

// rawScan checks the datastore content directly: every hash key decodes to a canonical header, every
// height key maps to the canonical hash, and returns the stored heights by hash key and by index key.
func rawScan(mem *memds.Mem, chain *vh.Chain) (byHash, byIndex map[uint64]bool, problem string) {
	byHash, byIndex = map[uint64]bool{}, map[uint64]bool{}
	snap := mem.Snapshot()
	for k, v := range snap {
		name := strings.TrimPrefix(k, storePrefix+"/")
		if name == k {
			continue // other namespace
		}
		switch {
		case name == "head" || name == "tail":
			var hh header.Hash
			if err := hh.UnmarshalJSON(v); err != nil {
				return nil, nil, fmt.Sprintf("pointer %s does not hold a hash: %v", name, err)
			}
		case isDigits(name):
			h, _ := strconv.ParseUint(name, 10, 64)
			c := chain.At(h)
			if c == nil || !bytes.Equal(c.Hash(), v) {
				return nil, nil, fmt.Sprintf("height index %d maps to a non-canonical hash %X", h, v)
			}
			byIndex[h] = true
		default:
			hd := new(vh.Header)
			if err := hd.UnmarshalBinary(v); err != nil {
				return nil, nil, fmt.Sprintf("key %s holds an undecodable header", k)
			}
			if !chain.IsCanonical(hd) {
				return nil, nil, fmt.Sprintf("datastore holds a non-canonical header %v", hd)
			}
			if !strings.EqualFold(name, hd.Hash().String()) {
				return nil, nil, fmt.Sprintf("header %v stored under a foreign key %s", hd, name)
			}
			byHash[hd.H] = true
		}
	}
	return byHash, byIndex, ""
}

func isDigits(s string) bool {
	if s == "" {
		return false
	}
	for _, r := range s {
		if r < '0' || r > '9' {
			return false
		}
	}
	return true
}
