package props

import (
	"fmt"
	"testing"
	"time"

	header "github.com/celestiaorg/go-header"
	"pgregory.net/rapid"

	"verif/harness/vh"
)

// C02 — VerifyRange returns exactly the verified, height-adjacent prefix of its input.

type C02Mut struct {
	Kind string `json:"kind"` // gap dup swap nil forged forked wrong_chain time_regress future bad_validate
	Pos  int    `json:"pos"`  // position, taken modulo the current length
}

type C02Scenario struct {
	TrustedNil  bool     `json:"trusted_nil"`
	TrustedH    uint64   `json:"trusted_h"`
	TrustedSpan uint64   `json:"trusted_span"`
	Gap         uint64   `json:"gap"` // first element is TrustedH+Gap (>=1)
	Len         int      `json:"len"`
	Spans       []uint64 `json:"spans"`
	Muts        []C02Mut `json:"muts"`
	AcceptAll   bool     `json:"accept_all,omitempty"` // every header's type-level Verify accepts anything
	// PanicAt > 0: the type-level Verify that judges element PanicAt-1 (the trusted header's for element 0, else the
	// previous element's) panics. VerifyRange may let the panic through or return the prefix before it with an
	// error; it must not count the element as verified
	PanicAt int `json:"panic_at,omitempty"`
}

var c02Kinds = []string{"gap", "dup", "swap", "nil", vh.AdvForged, vh.AdvForked, vh.AdvWrongChain, vh.AdvTimeRegress, vh.AdvFuture, vh.AdvBadValidate, "below", "below_late", "future_near", "future_edge", "time_back_subsecond"}

func genC02(t *rapid.T) C02Scenario {
	s := C02Scenario{
		TrustedNil:  rapid.IntRange(0, 29).Draw(t, "tnil") == 0,
		TrustedH:    rapid.Uint64Range(1, 50).Draw(t, "th"),
		TrustedSpan: rapid.SampledFrom([]uint64{0, 1, 2, 5, 1 << 40}).Draw(t, "tspan"),
		Gap:         rapid.SampledFrom([]uint64{1, 1, 1, 2, 3, 6}).Draw(t, "gap"),
		Spans:       rapid.SliceOfN(rapid.SampledFrom([]uint64{0, 1, 3, 1 << 40}), 1, 4).Draw(t, "spans"),
	}
	s.AcceptAll = rapid.IntRange(0, 3).Draw(t, "acceptall") == 0
	switch rapid.IntRange(0, 9).Draw(t, "lenclass") {
	case 0:
		s.Len = 0
	case 1:
		s.Len = 1
	case 2:
		s.Len = rapid.IntRange(50, 200).Draw(t, "lenbig")
	default:
		s.Len = rapid.IntRange(2, 20).Draw(t, "len")
	}
	if rapid.IntRange(0, 7).Draw(t, "panics") == 0 {
		s.PanicAt = 1 + rapid.IntRange(0, 12).Draw(t, "panicat")
	}
	nm := rapid.IntRange(0, 3).Draw(t, "nmut")
	for i := 0; i < nm; i++ {
		s.Muts = append(s.Muts, C02Mut{
			Kind: rapid.SampledFrom(c02Kinds).Draw(t, "kind"),
			Pos:  rapid.IntRange(0, 220).Draw(t, "pos"),
		})
	}
	return s
}

func c02Build(s C02Scenario) (tr *vh.Header, in []*vh.Header) {
	n := int(s.TrustedH+s.Gap) + s.Len + 2
	spans := make([]uint64, n)
	for i := range spans {
		spans[i] = s.Spans[i%len(s.Spans)]
	}
	spans[s.TrustedH-1] = s.TrustedSpan
	spec := vh.ChainSpec{ChainID: "c02", N: n, StartMs: -int64(n+10) * 1000, Spans: spans}
	c := spec.Build()
	if !s.TrustedNil {
		tr = c.At(s.TrustedH)
	}
	first := s.TrustedH + s.Gap
	in = append(in, c.Range(first, first+uint64(s.Len))...)
	for i, m := range s.Muts {
		if len(in) == 0 {
			break
		}
		p := m.Pos % len(in)
		switch m.Kind {
		case "gap":
			in = append(in[:p:p], in[p+1:]...)
		case "dup":
			in = append(in[:p+1:p+1], in[p:]...)
		case "swap":
			if p+1 < len(in) {
				in[p], in[p+1] = in[p+1], in[p]
			}
		case "nil":
			in[p] = nil
		case "below":
			in[p] = c.At(1 + uint64(p)%s.TrustedH)
		case "time_back_subsecond":
			// earlier than its predecessor by less than a second, inside the same second
			if in[p] != nil && p > 0 && in[p-1] != nil {
				b := in[p].Clone()
				sec := in[p-1].T - in[p-1].T%1_000_000_000
				if in[p-1].T > sec {
					b.T = sec + (in[p-1].T-sec)/2
				} else {
					// the predecessor sits on a second boundary: move both into the second
					a := in[p-1].Clone()
					a.T = sec + 700_000_000
					in[p-1] = a.Seal()
					b.T = sec + 300_000_000
				}
				in[p] = b.Seal()
			}
		case "future_near":
			// beyond the clock-drift allowance by less than the allowance itself
			if in[p] != nil {
				b := in[p].Clone()
				b.T = vh.Epoch.UnixNano() + int64(header.VerifClockDrift()) + int64(1+(i*7+p)%9)*1_000_000_000
				in[p] = b.Seal()
			}
		case "future_edge":
			// exactly at the allowance (still acceptable) or one nanosecond beyond it
			if in[p] != nil {
				b := in[p].Clone()
				b.T = vh.Epoch.UnixNano() + int64(header.VerifClockDrift()) + int64((i+p)%2)
				in[p] = b.Seal()
			}
		case "below_late":
			// at or below the trusted height, but with a later time (so only the height check can refuse it)
			b := c.At(1 + uint64(p)%s.TrustedH).Clone()
			if tr != nil {
				b.T = tr.T + 1_000_000_000
			}
			in[p] = b.Seal()
		default:
			if in[p] != nil {
				in[p] = vh.Variant(in[p], m.Kind, uint32(i+1))
			}
		}
	}
	return tr, in
}

func runC02(t *testing.T, s C02Scenario) (res Result) {
	bubble(t, func() {
		tr, in := c02Build(s)
		now := time.Now()
		if s.AcceptAll {
			// a permissive header type: only the mandatory checks and the adjacency rule decide
			accept := func(*vh.Header) error { return nil }
			if tr != nil {
				tr = tr.Clone().Seal()
				tr.VerifyFn = accept
			}
			for i, x := range in {
				if x != nil {
					c := x.Clone().Seal()
					c.VerifyFn = accept
					in[i] = c
				}
			}
		}

		if p := s.PanicAt - 1; p >= 0 && p < len(in) && in[p] != nil {
			boom := func(*vh.Header) error { panic("c02: the header type's Verify crashes on this header") }
			if p == 0 {
				if tr != nil {
					tr = tr.Clone().Seal()
					tr.VerifyFn = boom
				}
			} else if in[p-1] != nil {
				c := in[p-1].Clone().Seal()
				c.VerifyFn = boom
				in[p-1] = c
			}
		}

		// reference loop written from the statement; header.Verify is the step predicate
		k := 0
		refPanicked := false
		func() {
			defer func() {
				if recover() != nil {
					refPanicked = true
				}
			}() // a panic in the reference run is judged on the real call below
			prev := tr
			for i, x := range in {
				// the step predicate is the reference model of C01 (mandatory conditions, then the type's own
				// Verify), not header.Verify itself, so that a defect inside Verify cannot hide in the oracle
				if x == nil || prev == nil || len(c01Model(prev, x, now, header.VerifClockDrift())) > 0 || prev.Verify(x) != nil {
					break
				}
				if i > 0 && x.Height() != prev.Height()+1 {
					break
				}
				k++
				prev = x
			}
		}()

		var got []*vh.Header
		var err error
		func() {
			defer func() {
				if r := recover(); r != nil {
					if refPanicked {
						res.label("type_verify_panic_let_through")
						res.NonTrivial = true
						got, err = in[:k], fmt.Errorf("panic: %v", r)
						return
					}
					res.failf("VerifyRange panicked: %v", r)
				}
			}()
			got, err = header.VerifyRange(tr, in)
		}()
		if res.Verdict != "" {
			return
		}

		kinds := ""
		for _, m := range s.Muts {
			kinds += m.Kind + ","
		}
		res.NonTrivial = (k > 0 && k < len(in)) || (k > 0 && s.Gap > 1)
		res.SigKey = []any{len(in), k, kinds, s.Gap, s.TrustedSpan}
		res.label(fmt.Sprintf("prefix=%s", map[bool]string{true: "whole", false: "partial"}[k == len(in)]))
		if s.Gap > 1 && k > 0 {
			res.label("accepted_nonadjacent_first")
		}
		res.Obs = map[string]any{"k": k, "len_in": len(in), "len_got": len(got), "err": fmt.Sprint(err)}

		if len(got) > len(in) {
			res.failf("result longer than input")
			return
		}
		for i := range got {
			if got[i] != in[i] {
				res.failf("result is not a prefix of the input: element %d differs", i)
				return
			}
		}
		if len(got) > k {
			res.failf("result has %d elements but only the first %d are verified and adjacent (element %d fails)", len(got), k, k)
			return
		}
		if len(got) < k {
			res.failf("result has %d elements although the first %d are verified and adjacent", len(got), k)
			return
		}
		wantNil := k == len(in) && len(in) > 0
		if wantNil && err != nil {
			res.failf("error %v although the whole non-empty input is verified", err)
		}
		if !wantNil && err == nil {
			res.failf("nil error although only %d of %d elements are verified", k, len(in))
		}
	})
	return res
}

func TestC02(t *testing.T)       { check(t, "C02", genC02, runC02) }
func TestC02Replay(t *testing.T) { replay(t, "C02", runC02) }
