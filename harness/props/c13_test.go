package props

import (
	"bytes"
	"context"
	"encoding/binary"
	"fmt"
	"strings"
	"sync"
	"testing"
	"testing/synctest"
	"time"

	"github.com/celestiaorg/go-header/p2p"
	p2p_pb "github.com/celestiaorg/go-header/p2p/pb"
	"github.com/celestiaorg/go-libp2p-messenger/serde"
	"github.com/libp2p/go-libp2p/core/network"
	"github.com/libp2p/go-libp2p/core/peer"
	"pgregory.net/rapid"

	"verif/harness/vh"
)

// C13 — Exchange.Get/GetByHeight return only validated, correctly bound headers.

type C13Scenario struct {
	// Metrics: the Exchange is built WithMetrics (a configuration that must not change any result)
	Metrics bool `json:"metrics,omitempty"`
	// Restart: the Exchange is stopped and started again before it is used
	Restart   bool        `json:"restart,omitempty"`
	Method    string      `json:"method"` // get | get_by_height
	Height    uint64      `json:"height"`
	Peers     []Behaviour `json:"peers"`
	TimeoutMs int         `json:"timeout_ms"`
	// Workers > 0 selects the concurrent engine: that many callers issue PerWorker calls each on ONE Exchange whose
	// trusted peers answer NOT_FOUND except one; every call must succeed (real goroutines, probabilistic)
	Workers   int `json:"workers,omitempty"`
	PerWorker int `json:"per_worker,omitempty"`
}

var c13Kinds = []string{
	bhCorrect, bhCorrect, bhCorrect, bhOtherHeader, bhWrongChain, bhBadValidate, bhGarbage, bhUnknownCode, bhInvalidCode,
	bhNotFound, bhEmpty, bhTruncated, bhOversized, bhSeveral, bhHang, bhReset, bhRawGarbage, bhNilBodyOK, bhForged, bhCaseChain, bhNoChain, bhChainPrefix, bhUnknownBody,
}

var c13Delays = []int{0, 1, 50, 500, 1900, 1999, 2001, 2100, 5000}

func genC13(t *rapid.T) C13Scenario {
	s := C13Scenario{
		Method:    rapid.SampledFrom([]string{"get", "get_by_height"}).Draw(t, "method"),
		Height:    rapid.Uint64Range(1, 20).Draw(t, "height"),
		TimeoutMs: 2000,
	}
	n := rapid.IntRange(1, 4).Draw(t, "npeers")
	for i := 0; i < n; i++ {
		s.Peers = append(s.Peers, Behaviour{
			Kind:    rapid.SampledFrom(c13Kinds).Draw(t, "kind"),
			DelayMs: rapid.SampledFrom(c13Delays).Draw(t, "delay"),
			K:       rapid.IntRange(1, 3).Draw(t, "k"),
		})
	}
	s.Metrics = rapid.IntRange(0, 3).Draw(t, "metrics") == 0
	s.Restart = rapid.IntRange(0, 3).Draw(t, "restart") == 0
	return s
}

func c13SendsWellFormed(kind string) bool {
	switch kind {
	case bhCorrect, bhSeveral, bhOtherHeader, bhForged, bhCaseChain:
		return true
	}
	return false
}

func c13Exact(kind string) bool { return kind == bhCorrect || kind == bhSeveral }

func genC13Conc(t *rapid.T) C13Scenario {
	s := C13Scenario{
		Method:    rapid.SampledFrom([]string{"get", "get_by_height"}).Draw(t, "method"),
		Height:    rapid.Uint64Range(1, 20).Draw(t, "height"),
		TimeoutMs: 2000,
		Workers:   rapid.IntRange(4, 16).Draw(t, "workers"),
		PerWorker: rapid.IntRange(20, 60).Draw(t, "perworker"),
	}
	n := rapid.IntRange(3, 5).Draw(t, "npeers")
	good := rapid.IntRange(0, n-1).Draw(t, "good")
	for i := 0; i < n; i++ {
		b := Behaviour{Kind: bhNotFound}
		if i == good {
			b.Kind = bhCorrect
		}
		s.Peers = append(s.Peers, b)
	}
	return s
}

// runC13Conc: overlapping calls on one Exchange; exactly one trusted peer holds the header.
func runC13Conc(t *testing.T, s C13Scenario) (res Result) {
	bubble(t, func() {
		const chainID = "c13"
		chain := vh.ChainSpec{ChainID: chainID, N: 40, StartMs: -100_000}.Build()
		ne, err := newNet(len(s.Peers) + 1)
		if err != nil {
			res.failf("HARNESS: mocknet: %v", err)
			return
		}
		defer ne.close()
		var ids []peer.ID
		for i, b := range s.Peers {
			newScriptedPeer(ne.hosts[i+1], chain, []Behaviour{b})
			ids = append(ids, ne.hosts[i+1].ID())
		}
		ex, err := newClient(ne.hosts[0], ids, chainID,
			p2p.WithRequestTimeout[p2p.ClientParameters](time.Duration(s.TimeoutMs)*time.Millisecond))
		if err != nil {
			res.failf("HARNESS: client: %v", err)
			return
		}
		defer func() {
			synctest.Wait()
			c2, cn := vctx(10 * time.Second)
			_ = ex.Stop(c2)
			cn()
		}()
		if err := ne.connectAll(); err != nil {
			res.failf("HARNESS: connect: %v", err)
			return
		}
		want := chain.At(s.Height)
		var mu sync.Mutex
		var firstErr string
		var wg sync.WaitGroup
		for w := 0; w < s.Workers; w++ {
			w := w
			wg.Add(1)
			go func() {
				defer wg.Done()
				for i := 0; i < s.PerWorker; i++ {
					ctx, cancel := vctx(time.Minute)
					var got *vh.Header
					var gerr error
					if s.Method == "get" {
						got, gerr = ex.Get(ctx, want.Hash())
					} else {
						got, gerr = ex.GetByHeight(ctx, s.Height)
					}
					cancel()
					if gerr != nil || !vh.Equal(got, want) {
						mu.Lock()
						if firstErr == "" {
							firstErr = fmt.Sprintf("caller %d, call %d: (%v, %v)", w, i, got, gerr)
						}
						mu.Unlock()
						return
					}
				}
			}()
		}
		wg.Wait()
		res.NonTrivial = true
		res.label("engine=concurrent", fmt.Sprintf("workers=%d", s.Workers))
		if firstErr != "" {
			res.failf("%d overlapping callers on one Exchange, one of %d trusted peers holds the header and answers correctly, yet %s", s.Workers, len(s.Peers), firstErr)
		}
	})
	return res
}

func runC13(t *testing.T, s C13Scenario) (res Result) {
	if s.Workers > 0 {
		return runC13Conc(t, s)
	}
	exchangeMetrics, exchangeRestart = s.Metrics, s.Restart
	defer func() { exchangeMetrics, exchangeRestart = false, false }()
	bubble(t, func() {
		const chainID = "c13"
		chain := vh.ChainSpec{ChainID: chainID, N: 40, StartMs: -100_000}.Build()
		ne, err := newNet(len(s.Peers) + 1)
		if err != nil {
			res.failf("HARNESS: mocknet: %v", err)
			return
		}
		defer ne.close()
		var peers []*scriptedPeer
		var ids []peer.ID
		for i, b := range s.Peers {
			p := newScriptedPeer(ne.hosts[i+1], chain, []Behaviour{b})
			peers = append(peers, p)
			ids = append(ids, ne.hosts[i+1].ID())
		}
		ex, err := newClient(ne.hosts[0], ids, chainID,
			p2p.WithRequestTimeout[p2p.ClientParameters](time.Duration(s.TimeoutMs)*time.Millisecond))
		if err != nil {
			res.failf("HARNESS: client: %v", err)
			return
		}
		defer func() {
			// let every delayed handler finish while the network is still up
			time.Sleep(10 * time.Second)
			for _, p := range peers {
				p.closeHung()
			}
			synctest.Wait()
			c2, cn := vctx(10 * time.Second)
			_ = ex.Stop(c2)
			cn()
		}()
		if err := ne.connectAll(); err != nil {
			res.failf("HARNESS: connect: %v", err)
			return
		}
		want := chain.At(s.Height)
		ctx, cancel := vctx(time.Minute)
		defer cancel()
		t0 := time.Now()
		var got *vh.Header
		var gerr error
		if s.Method == "get" {
			got, gerr = ex.Get(ctx, want.Hash())
		} else {
			got, gerr = ex.GetByHeight(ctx, s.Height)
		}
		elapsed := time.Since(t0)

		timeout := time.Duration(s.TimeoutMs) * time.Millisecond
		validInTime, exactInTime, liar, bad := 0, 0, 0, 0
		for _, b := range s.Peers {
			inTime := time.Duration(b.DelayMs)*time.Millisecond < timeout
			if c13SendsWellFormed(b.Kind) && inTime {
				validInTime++
				if c13Exact(b.Kind) {
					exactInTime++
				} else {
					liar++
				}
			}
			if !c13Exact(b.Kind) {
				bad++
			}
		}
		res.NonTrivial = bad >= 1 && (exactInTime >= 1 || bad == len(s.Peers))
		res.label("method="+s.Method, fmt.Sprintf("bad_peers=%d/%d", bad, len(s.Peers)))
		res.Obs = map[string]any{"got": got.String(), "err": fmt.Sprint(gerr), "elapsed": elapsed.String()}

		if elapsed > timeout+time.Second {
			res.failf("call took %v of virtual time with a request timeout of %v", elapsed, timeout)
			return
		}
		if gerr == nil {
			if got == nil {
				res.failf("zero header returned with a nil error")
				return
			}
			sentBySomeone := false
			for _, p := range peers {
				for _, h := range p.sentHeaders() {
					if vh.Equal(h, got) {
						sentBySomeone = true
					}
				}
			}
			if !sentBySomeone {
				res.failf("returned header %v was sent by no peer", got)
				return
			}
			if got.Validate() != nil {
				res.failf("returned header %v fails Validate", got)
				return
			}
			if !strings.EqualFold(got.ChainID(), chainID) {
				res.failf("returned header has chain id %q, configured %q", got.ChainID(), chainID)
				return
			}
			if s.Method == "get" && fmtHash(got.Hash()) != fmtHash(want.Hash()) {
				res.failf("Get(%X) returned a header with hash %X", []byte(want.Hash()), []byte(got.Hash()))
				return
			}
		} else if got != nil {
			// a header together with an error is not promised by these methods; tolerate only a zero header
			res.failf("error %v returned together with a non-zero header %v", gerr, got)
			return
		}
		if validInTime == 0 && gerr == nil {
			res.failf("no trusted peer answered validly in time, yet the call succeeded with %v", got)
			return
		}
		if liar == 0 && exactInTime >= 1 {
			if gerr != nil {
				res.failf("a trusted peer answered correctly in time and nobody lied with a well-formed header, yet the call failed: %v", gerr)
				return
			}
			if !vh.Equal(got, want) {
				res.failf("expected the requested header %v, got %v", want, got)
			}
		}
	})
	return res
}

func TestC13Conc(t *testing.T)   { check(t, "C13", genC13Conc, runC13) }
func TestC13(t *testing.T)       { check(t, "C13", genC13, runC13) }
func TestC13Replay(t *testing.T) { replay(t, "C13", runC13) }

var _ = context.Background

// FuzzC13Frames: one trusted peer answers Get / GetByHeight with arbitrary bytes.
func FuzzC13Frames(f *testing.F) {
	const chainID = "c13"
	chain := vh.ChainSpec{ChainID: chainID, N: 12, StartMs: -100_000}.Build()
	enc := func(code p2p_pb.StatusCode, h *vh.Header) []byte {
		var body []byte
		if h != nil {
			body, _ = h.MarshalBinary()
		}
		b, _ := frame(code, body).Marshal()
		return append(binary.AppendUvarint(nil, uint64(len(b))), b...)
	}
	f.Add(enc(p2p_pb.StatusCode_OK, chain.At(5)), true)
	f.Add(enc(p2p_pb.StatusCode_OK, chain.At(6)), false)
	f.Add(enc(p2p_pb.StatusCode_NOT_FOUND, nil), true)
	f.Add(enc(p2p_pb.StatusCode_OK, vh.Variant(chain.At(5), vh.AdvWrongChain, 1)), false)
	f.Add(enc(p2p_pb.StatusCode_OK, vh.Variant(chain.At(5), vh.AdvNoChain, 1)), false)
	f.Add(enc(p2p_pb.StatusCode_OK, vh.Variant(chain.At(5), vh.AdvBadValidate, 1)), true)
	f.Add(enc(p2p_pb.StatusCode(9), chain.At(5)), true)
	f.Add([]byte{}, true)
	f.Add([]byte{0xff, 0xff, 0xff, 0xff, 0x0f, 1, 2, 3}, false)
	f.Add(append(enc(p2p_pb.StatusCode_OK, chain.At(5)), enc(p2p_pb.StatusCode_OK, chain.At(6))...), true)
	col := evidFor("C13")
	f.Fuzz(func(t *testing.T, raw []byte, byHash bool) {
		if len(raw) > 4096 {
			return
		}
		bubble(t, func() {
			ne, err := newNet(2)
			if err != nil {
				t.Fatalf("HARNESS: %v", err)
			}
			defer ne.close()
			ne.hosts[1].SetStreamHandler(exProtocolID, func(s network.Stream) {
				req := new(p2p_pb.HeaderRequest)
				if _, err := serde.Read(s, req); err != nil {
					_ = s.Reset()
					return
				}
				_, _ = s.Write(raw)
				_ = s.Close()
			})
			ex, err := newClient(ne.hosts[0], []peer.ID{ne.hosts[1].ID()}, chainID,
				p2p.WithRequestTimeout[p2p.ClientParameters](2*time.Second))
			if err != nil {
				t.Fatalf("HARNESS: %v", err)
			}
			defer func() {
				c2, cn := vctx(10 * time.Second)
				_ = ex.Stop(c2)
				cn()
			}()
			_ = ne.connectAll()
			ctx, cancel := vctx(time.Minute)
			defer cancel()
			want := chain.At(5)
			var got *vh.Header
			var gerr error
			if byHash {
				got, gerr = ex.Get(ctx, want.Hash())
			} else {
				got, gerr = ex.GetByHeight(ctx, 5)
			}
			col.AddExtra("fuzz_execs", 1)
			if gerr != nil {
				return
			}
			if got == nil {
				t.Fatalf("C13 violated: zero header with nil error (response bytes %x)", raw)
			}
			if got.Validate() != nil || !strings.EqualFold(got.ChainID(), chainID) {
				t.Fatalf("C13 violated: returned header %v is invalid or of another chain (response bytes %x)", got, raw)
			}
			if byHash && fmtHash(got.Hash()) != fmtHash(want.Hash()) {
				t.Fatalf("C13 violated: Get returned a header with another hash (response bytes %x)", raw)
			}
			// the header must really be in the bytes: re-encode and search
			bin, _ := got.MarshalBinary()
			if !bytes.Contains(raw, bin) {
				t.Fatalf("C13 violated: returned header %v is not what the peer sent (response bytes %x)", got, raw)
			}
		})
	})
}
