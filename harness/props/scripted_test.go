package props

import (
	"encoding/binary"
	"sync"
	"time"

	"github.com/celestiaorg/go-libp2p-messenger/serde"
	"github.com/libp2p/go-libp2p/core/host"
	"github.com/libp2p/go-libp2p/core/network"

	p2p_pb "github.com/celestiaorg/go-header/p2p/pb"

	"verif/harness/vh"
)

// Behaviour is what a scripted peer does with one request.
type Behaviour struct {
	Kind    string `json:"kind"`
	DelayMs int    `json:"delay_ms,omitempty"`
	K       int    `json:"k,omitempty"` // parameter: shift, position, prefix length …
}

// Behaviour kinds shared by the exchange checks. "correct" answers like an honest server
// that holds the whole canonical chain.
const (
	bhCorrect          = "correct"
	bhNotFound         = "not_found"
	bhEmpty            = "empty"               // close without a frame
	bhHang             = "hang"                // never answer (until the stream is reset by the client)
	bhReset            = "reset"               // reset the stream
	bhGarbage          = "garbage_body"        // OK frame with an undecodable body
	bhUnknownCode      = "unknown_status"      // frame with status code 7
	bhUnknownBody      = "unknown_status_body" // frames with a status code outside the protocol (7) carrying the honest headers
	bhInvalidCode      = "invalid_status"      // frame with status code 0
	bhRawGarbage       = "raw_garbage"         // bytes that are no frame at all
	bhTruncated        = "truncated"           // half a frame, then close
	bhOversized        = "oversized_len"       // length prefix of 2 GiB
	bhWrongChain       = "wrong_chain"         // header with another chain id
	bhBadValidate      = "bad_validate"        // header failing Validate
	bhForged           = "forged"              // header of another lineage at position K
	bhOtherHeader      = "other_header"        // a valid canonical header, but not the requested one (K heights away)
	bhShift            = "shift"               // range answered from origin+K (K may be negative)
	bhRepeatPrev       = "repeat_prev"         // the previous chunk again
	bhReorder          = "reorder"             // range with two headers swapped
	bhShortPrefix      = "short_prefix"        // only the first K (>=1) headers
	bhOverlap          = "overlap"             // starts one before origin
	bhMore             = "more"                // more headers than asked
	bhDupInside        = "dup_inside"          // one header twice in the run
	bhGapInside        = "gap_inside"          // one header missing in the run
	bhNilBodyOK        = "ok_empty_body"       // OK status with empty body
	bhSeveral          = "several_frames"      // two frames for a single-header request
	bhCaseChain        = "chain_case"          // header whose chain id differs only in case
	bhNoChain          = "no_chain"            // header with an empty chain id
	bhChainPrefix      = "chain_prefix"        // header whose chain id lacks the last character
	bhBadValidateChain = "bad_validate_chain"  // a header failing Validate at position K, the rest of the run re-linked on top of it
	bhPanicValidate    = "panic_validate"      // header on which the type's Validate panics (C05 only: needs vh.ArmPanics)
	bhPanicVerify      = "panic_verify"        // header on which the type's Verify panics
	bhPanicDecode      = "panic_decode"        // bytes on which the type's UnmarshalBinary panics
	bhShiftInside      = "shift_inside"        // a run that starts late but still ends inside the requested window
)

type peerReqLog struct {
	At     time.Duration `json:"at"` // since bubble start
	Origin uint64        `json:"origin"`
	Hash   string        `json:"hash,omitempty"`
	Amount uint64        `json:"amount"`
	Kind   string        `json:"kind"` // behaviour applied
	Index  int           `json:"index"`
}

// scriptedPeer answers the exchange protocol according to a script.
type scriptedPeer struct {
	h      host.Host
	chain  *vh.Chain
	script []Behaviour // per request index; the last one repeats
	// headOverride, if set, is what "correct" answers to a head request (origin 0).
	headOverride *vh.Header

	mu     sync.Mutex
	reqs   []peerReqLog
	sent   []*vh.Header // every well-formed header this peer put on the wire
	t0     time.Time
	hung   []network.Stream
	closed bool
}

func newScriptedPeer(h host.Host, chain *vh.Chain, script []Behaviour) *scriptedPeer {
	p := &scriptedPeer{h: h, chain: chain, script: script, t0: time.Now()}
	h.SetStreamHandler(exProtocolID, p.handle)
	return p
}

func (p *scriptedPeer) requests() []peerReqLog {
	p.mu.Lock()
	defer p.mu.Unlock()
	return append([]peerReqLog(nil), p.reqs...)
}

func (p *scriptedPeer) sentHeaders() []*vh.Header {
	p.mu.Lock()
	defer p.mu.Unlock()
	return append([]*vh.Header(nil), p.sent...)
}

func (p *scriptedPeer) closeHung() {
	p.mu.Lock()
	hs := p.hung
	p.hung = nil
	p.closed = true
	p.mu.Unlock()
	for _, s := range hs {
		_ = s.Reset()
	}
}

func frame(code p2p_pb.StatusCode, body []byte) *p2p_pb.HeaderResponse {
	return &p2p_pb.HeaderResponse{StatusCode: code, Body: body}
}

func (p *scriptedPeer) handle(s network.Stream) {
	req := new(p2p_pb.HeaderRequest)
	if _, err := serde.Read(s, req); err != nil {
		_ = s.Reset()
		return
	}
	_ = s.CloseRead()
	p.mu.Lock()
	idx := len(p.reqs)
	b := Behaviour{Kind: bhCorrect}
	if len(p.script) > 0 {
		if idx < len(p.script) {
			b = p.script[idx]
		} else {
			b = p.script[len(p.script)-1]
		}
	}
	lg := peerReqLog{At: time.Since(p.t0), Origin: req.GetOrigin(), Amount: req.Amount, Kind: b.Kind, Index: idx}
	if h := req.GetHash(); h != nil {
		lg.Hash = fmtHash(h)
	}
	p.reqs = append(p.reqs, lg)
	p.mu.Unlock()

	// every answer costs at least 1ms of virtual time: a client that retries in a tight loop must not be
	// able to spin without the bubble's clock (and thus its own deadline) ever advancing
	time.Sleep(time.Duration(max(b.DelayMs, 1)) * time.Millisecond)

	// the honest answer
	var honest []*vh.Header
	switch {
	case req.GetHash() != nil:
		for _, c := range p.chain.Headers {
			if fmtHash(c.Hash()) == fmtHash(req.GetHash()) {
				honest = []*vh.Header{c}
			}
		}
	case req.GetOrigin() == 0:
		if p.headOverride != nil {
			honest = []*vh.Header{p.headOverride}
		} else {
			honest = []*vh.Header{p.chain.Head()}
		}
	default:
		amt := req.Amount
		if amt > 64 {
			amt = 64
		}
		honest = p.chain.Range(req.GetOrigin(), req.GetOrigin()+amt)
	}
	origin := req.GetOrigin()
	if req.GetHash() != nil && len(honest) == 1 {
		origin = honest[0].H
	}
	if origin == 0 && len(honest) == 1 {
		origin = honest[0].H
	}

	send := func(hs []*vh.Header) {
		for _, h := range hs {
			bin, _ := h.MarshalBinary()
			p.mu.Lock()
			p.sent = append(p.sent, h)
			p.mu.Unlock()
			if _, err := serde.Write(s, frame(p2p_pb.StatusCode_OK, bin)); err != nil {
				_ = s.Reset()
				return
			}
		}
		_ = s.Close()
	}
	one := func(f *p2p_pb.HeaderResponse) {
		if _, err := serde.Write(s, f); err != nil {
			_ = s.Reset()
			return
		}
		_ = s.Close()
	}
	mutate := func(kind string) {
		if len(honest) == 0 {
			one(frame(p2p_pb.StatusCode_NOT_FOUND, nil))
			return
		}
		out := append([]*vh.Header(nil), honest...)
		pos := 0
		if b.K > 0 {
			pos = b.K % len(out)
		}
		out[pos] = vh.Variant(out[pos], kind, uint32(idx+1))
		send(out)
	}

	switch b.Kind {
	case bhCorrect:
		if len(honest) == 0 {
			one(frame(p2p_pb.StatusCode_NOT_FOUND, nil))
			return
		}
		send(honest)
	case bhNotFound:
		one(frame(p2p_pb.StatusCode_NOT_FOUND, nil))
	case bhEmpty:
		_ = s.Close()
	case bhHang:
		p.mu.Lock()
		closed := p.closed
		if !closed {
			p.hung = append(p.hung, s)
		}
		p.mu.Unlock()
		if closed {
			_ = s.Reset()
		}
	case bhReset:
		_ = s.Reset()
	case bhGarbage:
		one(frame(p2p_pb.StatusCode_OK, []byte("this is not a header")))
	case bhNilBodyOK:
		one(frame(p2p_pb.StatusCode_OK, nil))
	case bhUnknownCode:
		one(frame(p2p_pb.StatusCode(7), nil))
	case bhUnknownBody:
		if len(honest) == 0 {
			one(frame(p2p_pb.StatusCode(7), nil))
			return
		}
		for _, h := range honest {
			bin, _ := h.MarshalBinary()
			p.mu.Lock()
			p.sent = append(p.sent, h)
			p.mu.Unlock()
			if _, err := serde.Write(s, frame(p2p_pb.StatusCode(7), bin)); err != nil {
				_ = s.Reset()
				return
			}
		}
		_ = s.Close()
	case bhInvalidCode:
		one(frame(p2p_pb.StatusCode_INVALID, nil))
	case bhRawGarbage:
		_, _ = s.Write([]byte{0x05, 0xff, 0xfe, 0xfd, 0xfc, 0xfb, 0x00, 0x01})
		_ = s.Close()
	case bhTruncated:
		bin := []byte{}
		if len(honest) > 0 {
			bin, _ = honest[0].MarshalBinary()
		}
		f := frame(p2p_pb.StatusCode_OK, bin)
		buf, _ := f.Marshal()
		pre := binary.AppendUvarint(nil, uint64(len(buf)))
		_, _ = s.Write(append(pre, buf[:len(buf)/2]...))
		_ = s.Close()
	case bhOversized:
		_, _ = s.Write(binary.AppendUvarint(nil, 1<<31))
		_, _ = s.Write(make([]byte, 64))
		_ = s.Close()
	case bhWrongChain:
		mutate(vh.AdvWrongChain)
	case bhNoChain:
		mutate(vh.AdvNoChain)
	case bhChainPrefix:
		mutate(vh.AdvChainPrefix)
	case bhBadValidate:
		mutate(vh.AdvBadValidate)
	case bhBadValidateChain:
		if len(honest) == 0 {
			one(frame(p2p_pb.StatusCode_NOT_FOUND, nil))
			return
		}
		out := append([]*vh.Header(nil), honest...)
		pos := 0
		if b.K > 0 {
			pos = b.K % len(out)
		}
		out[pos] = vh.Variant(out[pos], vh.AdvBadValidate, uint32(idx+1))
		for i := pos + 1; i < len(out); i++ {
			c := out[i].Clone()
			c.Prev = append([]byte(nil), out[i-1].Hash()...)
			out[i] = c.Seal()
		}
		send(out)
	case bhPanicValidate:
		mutate(vh.AdvPanicValidate)
	case bhPanicVerify:
		mutate(vh.AdvPanicVerify)
	case bhPanicDecode:
		mutate(vh.AdvPanicDecode)
	case bhForged:
		mutate(vh.AdvForged)
	case bhCaseChain:
		if len(honest) == 0 {
			one(frame(p2p_pb.StatusCode_NOT_FOUND, nil))
			return
		}
		out := append([]*vh.Header(nil), honest...)
		c := out[0].Clone()
		c.Chain = swapCase(c.Chain)
		out[0] = c.Seal()
		send(out)
	case bhOtherHeader:
		k := uint64(1)
		if b.K != 0 {
			k = uint64(abs(b.K))
		}
		o := p.chain.At(origin + k)
		if o == nil {
			o = p.chain.At(1)
		}
		send([]*vh.Header{o})
	case bhShift:
		k := int64(b.K)
		if k == 0 {
			k = 1
		}
		from := int64(origin) + k
		if from < 1 {
			from = 1
		}
		send(p.chain.Range(uint64(from), uint64(from)+uint64(max(len(honest), 1))))
	case bhShiftInside:
		if len(honest) < 2 {
			send(honest)
			return
		}
		s0 := 1 + abs(b.K)%(len(honest)-1)
		out := honest[s0:]
		if b.DelayMs%2 == 1 && len(out) > 1 {
			out = out[:len(out)-1]
		}
		send(out)
	case bhRepeatPrev:
		n := uint64(max(len(honest), 1))
		from := uint64(1)
		if origin > n {
			from = origin - n
		}
		send(p.chain.Range(from, from+n))
	case bhReorder:
		out := append([]*vh.Header(nil), honest...)
		if len(out) >= 2 {
			i := b.K % (len(out) - 1)
			if i < 0 {
				i = -i
			}
			out[i], out[i+1] = out[i+1], out[i]
		}
		send(out)
	case bhShortPrefix:
		k := max(1, abs(b.K))
		if k > len(honest) {
			k = len(honest)
		}
		if k == 0 {
			one(frame(p2p_pb.StatusCode_NOT_FOUND, nil))
			return
		}
		send(honest[:k])
	case bhOverlap:
		from := origin
		if from > 1 {
			from--
		}
		send(p.chain.Range(from, from+uint64(max(len(honest), 1))))
	case bhMore:
		send(p.chain.Range(origin, origin+uint64(len(honest))+3))
	case bhDupInside:
		out := append([]*vh.Header(nil), honest...)
		if len(out) >= 1 {
			i := abs(b.K) % len(out)
			out = append(out[:i+1:i+1], out[i:]...)
		}
		send(out)
	case bhGapInside:
		out := append([]*vh.Header(nil), honest...)
		if len(out) >= 3 {
			i := 1 + abs(b.K)%(len(out)-2)
			out = append(out[:i:i], out[i+1:]...)
		}
		send(out)
	case bhSeveral:
		if len(honest) == 0 {
			one(frame(p2p_pb.StatusCode_NOT_FOUND, nil))
			return
		}
		send(append(append([]*vh.Header(nil), honest...), honest[0]))
	default:
		_ = s.Reset()
	}
}

func abs(x int) int {
	if x < 0 {
		return -x
	}
	return x
}

func swapCase(s string) string {
	b := []byte(s)
	for i, c := range b {
		switch {
		case c >= 'a' && c <= 'z':
			b[i] = c - 32
		case c >= 'A' && c <= 'Z':
			b[i] = c + 32
		}
	}
	return string(b)
}
