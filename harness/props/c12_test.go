package props

import (
	"context"
	"errors"
	"fmt"
	"strings"
	"testing"
	"testing/synctest"
	"time"

	header "github.com/celestiaorg/go-header"
	"github.com/celestiaorg/go-header/store"
	"pgregory.net/rapid"

	"verif/harness/sched"
	"verif/harness/vh"
)

// C12 — GetByHeight waits for a future height and wakes once that header is stored.

type C12Reader struct {
	Off      int `json:"off"`       // height = prefill+1+off ; negative => below tail
	CancelAt int `json:"cancel_at"` // controller step at which its ctx is cancelled; -1 never
}

type C12Chunk struct {
	Off int `json:"off"` // first height = prefill+1+off
	N   int `json:"n"`
	// Shape of the one Append call (C12 only): "" = N adjacent headers ascending; "gap" = every other height
	// (off, off+2, ...); "desc" = N adjacent headers in descending order
	Shape string `json:"shape,omitempty"`
}

// heights lists what one chunk appends, in call order.
func (c C12Chunk) heights(base uint64) []uint64 {
	var out []uint64
	for i := 0; i < c.N; i++ {
		switch c.Shape {
		case "gap":
			out = append(out, base+uint64(c.Off)+uint64(2*i))
		case "desc":
			out = append(out, base+uint64(c.Off)+uint64(c.N-1-i))
		default:
			out = append(out, base+uint64(c.Off)+uint64(i))
		}
	}
	return out
}

type C12Scenario struct {
	Cfg         StoreCfg     `json:"cfg"`
	Tail        int          `json:"tail"`    // prefilled run is [tail, tail+prefill-1]; prefill 0 = empty store
	Prefill     int          `json:"prefill"` // 0..6
	Readers     []C12Reader  `json:"readers"`
	Writers     [][]C12Chunk `json:"writers"`
	Tape        []int        `json:"tape"`
	DSYield     bool         `json:"ds_yield,omitempty"` // datastore accesses are yield points too
	DSReadsOnly bool         `json:"ds_reads_only,omitempty"`
	Canonical   bool         `json:"canonical,omitempty"` // parked goroutines ordered by role (schedule enumeration)
	// Reset, when set, selects the whole-store-deletion engine (c12reset_test.go); the other fields are unused then.
	Reset *C12ResetScenario `json:"reset,omitempty"`
}

func genC12(t *rapid.T) C12Scenario {
	s := C12Scenario{
		Cfg:     genStoreCfg(t),
		Tail:    rapid.SampledFrom([]int{1, 1, 4}).Draw(t, "tail"),
		Prefill: rapid.SampledFrom([]int{0, 1, 2, 3, 3, 4, 5, 5}).Draw(t, "prefill"),
	}
	if s.Cfg.StoreCache == 1 {
		s.Cfg.StoreCache = 2
	}
	if s.Cfg.IndexCache == 1 {
		s.Cfg.IndexCache = 2
	}
	nr := rapid.IntRange(1, 3).Draw(t, "nreaders")
	for i := 0; i < nr; i++ {
		r := C12Reader{Off: rapid.IntRange(-2, 7).Draw(t, "roff"), CancelAt: -1}
		if rapid.IntRange(0, 4).Draw(t, "rcancel") == 0 {
			r.CancelAt = rapid.IntRange(0, 40).Draw(t, "rcancelat")
		}
		s.Readers = append(s.Readers, r)
	}
	nw := rapid.IntRange(1, 3).Draw(t, "nwriters")
	for i := 0; i < nw; i++ {
		nc := rapid.IntRange(1, 3).Draw(t, "nchunks")
		var w []C12Chunk
		for j := 0; j < nc; j++ {
			w = append(w, C12Chunk{Off: rapid.IntRange(0, 15).Draw(t, "coff"), N: rapid.IntRange(1, 4).Draw(t, "cn"),
				Shape: rapid.SampledFrom([]string{"", "", "", "gap", "desc"}).Draw(t, "cshape")})
		}
		s.Writers = append(s.Writers, w)
	}
	s.Tape = rapid.SliceOfN(rapid.IntRange(0, 15), 0, 150).Draw(t, "tape")
	s.DSYield = rapid.IntRange(0, 2).Draw(t, "dsyield") > 0
	return s
}

type c12ReaderObs struct {
	Height      uint64 `json:"height"`
	Finished    bool   `json:"finished"`
	Got         uint64 `json:"got,omitempty"`
	Err         string `json:"err,omitempty"`
	AfterCancel bool   `json:"after_cancel,omitempty"`
}

func runC12(t *testing.T, s C12Scenario) (res Result) {
	if s.Reset != nil {
		return runC12Reset(t, *s.Reset)
	}
	bubble(t, func() {
		e := newStoreEnv(s.Cfg, storeChainLen)
		ctx, cancel := vctx(24 * time.Hour)
		defer cancel()
		if err := e.open(ctx); err != nil {
			res.failf("opening a fresh store failed: %v", err)
			return
		}
		defer func() {
			c2, cn := vctx(time.Hour)
			_ = e.st.Stop(c2)
			cn()
		}()
		base := uint64(s.Tail + s.Prefill) // first height above the prefilled run
		stored := map[uint64]bool{}
		if s.Prefill > 0 {
			hs := e.chain.Range(uint64(s.Tail), base)
			if err := e.st.Append(ctx, hs...); err != nil {
				res.failf("prefill: %v", err)
				return
			}
			if err := e.st.Sync(ctx); err != nil {
				res.failf("prefill sync: %v", err)
				return
			}
			for _, h := range hs {
				stored[h.H] = true
			}
		}
		synctest.Wait()

		sc := sched.New()
		sc.Canonical = s.Canonical
		store.VerifSetYield(sc.Yield)
		defer store.VerifSetYield(nil)
		if s.DSYield {
			e.mem.Yield = sc.Yield
			if s.DSReadsOnly {
				e.mem.Yield = func(p string) {
					if p != "ds:write" {
						sc.Yield(p)
					}
				}
			}
			defer func() { e.mem.Yield = nil }()
		}

		obs := make([]c12ReaderObs, len(s.Readers))
		rctx := make([]context.Context, len(s.Readers))
		rcancel := make([]context.CancelFunc, len(s.Readers))
		readersDone := make([]chan struct{}, len(s.Readers))
		for i, r := range s.Readers {
			i := i
			h := int64(base) + int64(r.Off)
			if h < 1 {
				h = 1
			}
			obs[i].Height = uint64(h)
			rctx[i], rcancel[i] = context.WithCancel(ctx)
			readersDone[i] = make(chan struct{})
			go func() {
				defer close(readersDone[i])
				sc.Yield(fmt.Sprintf("r%d:start", i))
				got, err := e.st.GetByHeight(rctx[i], obs[i].Height)
				obs[i].Finished = true
				if err != nil {
					obs[i].Err = err.Error()
					if errors.Is(err, header.ErrNotFound) {
						obs[i].Err = "NOTFOUND: " + obs[i].Err
					}
					if errors.Is(err, context.Canceled) {
						obs[i].Err = "CANCELED: " + obs[i].Err
					}
				} else if got != nil {
					obs[i].Got = got.H
					if !e.chain.IsCanonical(got) {
						obs[i].Err = "non-canonical header returned"
					}
				}
			}()
		}
		writersLeft := len(s.Writers)
		wdone := make(chan struct{}, len(s.Writers))
		for wi, w := range s.Writers {
			wi, w := wi, w
			for _, c := range w {
				for _, h := range c.heights(base) {
					stored[h] = true
				}
			}
			go func() {
				defer func() { wdone <- struct{}{} }()
				for ci, c := range w {
					sc.Yield(fmt.Sprintf("w%d:append%d", wi, ci))
					var hs []*vh.Header
					for _, h := range c.heights(base) {
						hs = append(hs, e.chain.At(h))
					}
					_ = e.st.Append(ctx, hs...)
				}
			}()
		}
		sc.OnStep = func(step int) {
			for i, r := range s.Readers {
				if r.CancelAt == step {
					rcancel[i]()
				}
			}
		}
		done := func() bool {
			for {
				select {
				case <-wdone:
					writersLeft--
					continue
				default:
				}
				break
			}
			return writersLeft == 0
		}
		finished := sc.Run(s.Tape, done, 2000, 10*time.Millisecond)
		sc.Off()
		for _, st := range sc.Trace {
			res.TraceK = append(res.TraceK, st.K)
			res.TraceN = append(res.TraceN, st.N)
		}
		if !finished {
			res.failf("HARNESS: schedule did not finish within the step budget")
			return
		}
		// everything appended; let the flush loop and the readers settle
		if err := e.st.Sync(ctx); err != nil {
			res.failf("final Sync: %v", err)
			return
		}
		synctest.Wait()

		height := e.st.Height()
		var maxStored uint64
		for h := range stored {
			if h > maxStored {
				maxStored = h
			}
		}
		// otherBatchAbove: some Append call that does not carry height h carries a height above it (on an empty store
		// it may have initialised Head first, which makes h "at or below Height and not stored" for a moment)
		otherBatchAbove := func(h uint64) bool {
			for _, w := range s.Writers {
				for _, c := range w {
					has, above := false, false
					for _, x := range c.heights(base) {
						if x == h {
							has = true
						}
						if x > h {
							above = true
						}
					}
					if above && !has {
						return true
					}
				}
			}
			return false
		}
		tail, _ := e.st.Tail(ctx)
		windowHit := false
		for _, st := range sc.Trace {
			if st.Point == "flush:appended" {
				for _, o := range st.Others {
					if o == "getbyheight:miss" || o == "heightsub:wait" {
						windowHit = true
					}
				}
			}
		}
		res.NonTrivial = windowHit
		if windowHit {
			res.label("window_hit:notify_between_lookup_and_subscribe")
		}
		res.SigKey = nil
		res.Obs = map[string]any{"readers": obs, "height": height, "trace_len": len(sc.Trace)}

		for i, r := range s.Readers {
			o := &obs[i]
			cancelled := r.CancelAt >= 0 && r.CancelAt < sc.Steps
			switch {
			case stored[o.Height]:
				if !o.Finished {
					res.failf("reader %d for height %d is still blocked although that header has been appended (Height()=%d)", i, o.Height, height)
					return
				}
				if o.Got != o.Height {
					if cancelled && o.Err != "" {
						break // released by its cancelled context: allowed
					}
					if s.Prefill == 0 && otherBatchAbove(o.Height) && strings.HasPrefix(o.Err, "NOTFOUND") {
						// empty store: a batch above this height may have initialised Head first; the height
						// was then "at or below Height and not stored", for which ErrNotFound is the stated answer
						res.label("notfound_below_first_batch")
						break
					}
					res.failf("reader %d for height %d finished with (%d, %q) although the header has been appended", i, o.Height, o.Got, o.Err)
					return
				}
			case tail != nil && o.Height < tail.H:
				// at or below Height and not stored: ErrNotFound promptly
				if !o.Finished {
					res.failf("reader %d for height %d (below Tail %d, not stored) is blocked instead of returning ErrNotFound", i, o.Height, tail.H)
					return
				}
				if o.Got != 0 {
					res.failf("reader %d for height %d (not stored) got header %d", i, o.Height, o.Got)
					return
				}
			default:
				// never appended and above Height: must still be waiting, unless cancelled
				if o.Finished && o.Got != 0 {
					res.failf("reader %d got header %d for height %d that was never appended", i, o.Got, o.Height)
					return
				}
				if o.Finished && !cancelled && o.Height > height {
					res.failf("reader %d for height %d above Height()=%d returned early with %q instead of waiting for its context", i, o.Height, height, o.Err)
					return
				}
			}
		}
		// a cancelled context always releases the caller
		for i := range s.Readers {
			rcancel[i]()
		}
		synctest.Wait()
		for i := range s.Readers {
			select {
			case <-readersDone[i]:
			default:
				res.failf("reader %d for height %d is still blocked after its context was cancelled", i, obs[i].Height)
				return
			}
		}
		res.label(fmt.Sprintf("readers=%d", len(s.Readers)))
		_ = vh.Equal
	})
	return res
}

func TestC12(t *testing.T) { check(t, "C12", genC12, runC12) }

// c12EnumConfigs: tiny configurations whose schedules are enumerated completely.
//
//	0: store [1,2]; batch 4; reader GetByHeight(3); writer Append(3)
//	1: store [1,2]; batch 1; reader GetByHeight(4); writer Append(3) then Append(4)
//	2: empty store; batch 4; reader GetByHeight(1); writer Append(1,2)
//	3: store [1,2]; batch 4; reader GetByHeight(4); writers Append(3) and Append(4)
//	4: store [1,2]; batch 2; reader GetByHeight(3) cancelled at step 4; reader GetByHeight(4); writer Append(3,4)
//	5: as 0 with batch 1 (the flush loop writes the header out)
//	6: store [1,2]; batch 4; readers GetByHeight(3), GetByHeight(4); writer Append(3,4)
//	7: store [1,2]; batch 4; readers GetByHeight(3), GetByHeight(5) (never appended: must keep waiting); writer Append(3)
//	8: store [4,5]; batch 4; readers GetByHeight(3) (below the tail: ErrNotFound), GetByHeight(6); writer Append(6)
//	9: store [1,2]; batch 4; readers GetByHeight(5), GetByHeight(4) (never appended); writer Append(3,5) in one call
var c12EnumConfigs = []C12Scenario{
	{Cfg: StoreCfg{Batch: 4, StoreCache: 8, IndexCache: 8}, Tail: 1, Prefill: 2,
		Readers: []C12Reader{{Off: 0, CancelAt: -1}}, Writers: [][]C12Chunk{{{Off: 0, N: 1}}}},
	{Cfg: StoreCfg{Batch: 1, StoreCache: 8, IndexCache: 8}, Tail: 1, Prefill: 2,
		Readers: []C12Reader{{Off: 1, CancelAt: -1}}, Writers: [][]C12Chunk{{{Off: 0, N: 1}, {Off: 1, N: 1}}}},
	{Cfg: StoreCfg{Batch: 4, StoreCache: 8, IndexCache: 8}, Tail: 1, Prefill: 0,
		Readers: []C12Reader{{Off: 0, CancelAt: -1}}, Writers: [][]C12Chunk{{{Off: 0, N: 2}}}},
	{Cfg: StoreCfg{Batch: 4, StoreCache: 8, IndexCache: 8}, Tail: 1, Prefill: 2,
		Readers: []C12Reader{{Off: 1, CancelAt: -1}}, Writers: [][]C12Chunk{{{Off: 0, N: 1}}, {{Off: 1, N: 1}}}},
	{Cfg: StoreCfg{Batch: 2, StoreCache: 8, IndexCache: 8}, Tail: 1, Prefill: 2,
		Readers: []C12Reader{{Off: 0, CancelAt: 4}, {Off: 1, CancelAt: -1}}, Writers: [][]C12Chunk{{{Off: 0, N: 2}}}},
	{Cfg: StoreCfg{Batch: 1, StoreCache: 8, IndexCache: 8}, Tail: 1, Prefill: 2,
		Readers: []C12Reader{{Off: 0, CancelAt: -1}}, Writers: [][]C12Chunk{{{Off: 0, N: 1}}}},
	{Cfg: StoreCfg{Batch: 4, StoreCache: 8, IndexCache: 8}, Tail: 1, Prefill: 2,
		Readers: []C12Reader{{Off: 0, CancelAt: -1}, {Off: 1, CancelAt: -1}}, Writers: [][]C12Chunk{{{Off: 0, N: 2}}}},
	{Cfg: StoreCfg{Batch: 4, StoreCache: 8, IndexCache: 8}, Tail: 1, Prefill: 2,
		Readers: []C12Reader{{Off: 0, CancelAt: -1}, {Off: 2, CancelAt: -1}}, Writers: [][]C12Chunk{{{Off: 0, N: 1}}}},
	{Cfg: StoreCfg{Batch: 4, StoreCache: 8, IndexCache: 8}, Tail: 4, Prefill: 2,
		Readers: []C12Reader{{Off: -3, CancelAt: -1}, {Off: 0, CancelAt: -1}}, Writers: [][]C12Chunk{{{Off: 0, N: 1}}}},
	{Cfg: StoreCfg{Batch: 4, StoreCache: 8, IndexCache: 8}, Tail: 1, Prefill: 2,
		Readers: []C12Reader{{Off: 2, CancelAt: -1}, {Off: 1, CancelAt: -1}}, Writers: [][]C12Chunk{{{Off: 0, N: 2, Shape: "gap"}}}},
}

func TestC12Enum(t *testing.T) {
	runEnum(t, "C12", c12EnumConfigs, func(s C12Scenario, tape []int) C12Scenario {
		s.Tape, s.DSYield, s.DSReadsOnly, s.Canonical = tape, true, true, true
		return s
	}, runC12, map[int]bool{0: true, 1: true, 2: true, 3: true, 4: true, 5: true, 6: true, 7: true, 8: true, 9: true})
}
func TestC12Replay(t *testing.T) { replay(t, "C12", runC12) }
