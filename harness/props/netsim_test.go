package props

import (
	"context"
	"errors"
	"fmt"
	"io"
	"sync"
	"testing/synctest"
	"time"

	"github.com/celestiaorg/go-libp2p-messenger/serde"
	"github.com/ipfs/go-datastore"
	dssync "github.com/ipfs/go-datastore/sync"
	"github.com/libp2p/go-libp2p/core/host"
	"github.com/libp2p/go-libp2p/core/network"
	"github.com/libp2p/go-libp2p/core/peer"
	"github.com/libp2p/go-libp2p/core/protocol"
	"github.com/libp2p/go-libp2p/p2p/net/conngater"
	mocknet "github.com/libp2p/go-libp2p/p2p/net/mock"

	header "github.com/celestiaorg/go-header"
	"github.com/celestiaorg/go-header/p2p"
	p2p_pb "github.com/celestiaorg/go-header/p2p/pb"
	"github.com/celestiaorg/go-header/store"

	"verif/harness/memds"
	"verif/harness/vh"
)

const netID = "verif"

var exProtocolID = protocol.ID("/" + netID + "/header-ex/v0.0.3")

// netEnv is a mock network inside the bubble.
type netEnv struct {
	mn    mocknet.Mocknet
	hosts []host.Host
}

func newNet(n int) (*netEnv, error) {
	// peers are generated unlinked: nothing can connect before connectAll, in particular not the
	// Exchange's own bootstrap dial, which would race with its peer tracker subscribing to events
	mn := mocknet.New()
	e := &netEnv{mn: mn}
	for i := 0; i < n; i++ {
		h, err := mn.GenPeer()
		if err != nil {
			return nil, err
		}
		e.hosts = append(e.hosts, withDeadlines(h))
	}
	return e, nil
}

func (e *netEnv) connectAll() error {
	if err := e.mn.LinkAll(); err != nil {
		return err
	}
	return e.mn.ConnectAllButSelf()
}

func (e *netEnv) close() { _ = e.mn.Close() }

// newChainStore builds a real started store holding chain[tail..head] (flushed).
func newChainStore(chain *vh.Chain, tail, head uint64, opts ...store.Option) (*store.Store[*vh.Header], *memds.Mem, error) {
	mem := memds.New()
	st, err := store.NewStore[*vh.Header](mem, opts...)
	if err != nil {
		return nil, nil, err
	}
	ctx, cancel := vctx(time.Hour)
	defer cancel()
	if err := startScoped(st.Start); err != nil {
		return nil, nil, err
	}
	if head >= tail && tail >= 1 {
		if err := st.Append(ctx, chain.Range(tail, head+1)...); err != nil {
			return nil, nil, err
		}
		if err := st.Sync(ctx); err != nil {
			return nil, nil, err
		}
	}
	return st, mem, nil
}

func stopStore(st *store.Store[*vh.Header]) {
	ctx, cancel := vctx(time.Hour)
	defer cancel()
	_ = st.Stop(ctx)
}

// ---- recording proxy around a header.Store ----

type storeCall struct {
	Method string `json:"m"`
	A      uint64 `json:"a,omitempty"`
	B      uint64 `json:"b,omitempty"`
	Hash   string `json:"hash,omitempty"`
}

type recStore struct {
	header.Store[*vh.Header]
	mu    sync.Mutex
	calls []storeCall
	delay time.Duration // every read takes this long (or until its context ends)
}

func (r *recStore) setDelay(d time.Duration) {
	r.mu.Lock()
	r.delay = d
	r.mu.Unlock()
}

// slow waits for the configured delay; it returns the context's error if that ends first.
func (r *recStore) slow(ctx context.Context) error {
	r.mu.Lock()
	d := r.delay
	r.mu.Unlock()
	if d <= 0 {
		return nil
	}
	return sleepCtx(ctx, d)
}

func (r *recStore) Head(ctx context.Context, opts ...header.HeadOption[*vh.Header]) (*vh.Header, error) {
	if err := r.slow(ctx); err != nil {
		return nil, err
	}
	return r.Store.Head(ctx, opts...)
}

func (r *recStore) log(c storeCall) {
	r.mu.Lock()
	r.calls = append(r.calls, c)
	r.mu.Unlock()
}

func (r *recStore) take() []storeCall {
	r.mu.Lock()
	defer r.mu.Unlock()
	c := r.calls
	r.calls = nil
	return c
}

func (r *recStore) Get(ctx context.Context, h header.Hash) (*vh.Header, error) {
	r.log(storeCall{Method: "Get", Hash: h.String()})
	if err := r.slow(ctx); err != nil {
		return nil, err
	}
	return r.Store.Get(ctx, h)
}

func (r *recStore) GetByHeight(ctx context.Context, h uint64) (*vh.Header, error) {
	r.log(storeCall{Method: "GetByHeight", A: h})
	if err := r.slow(ctx); err != nil {
		return nil, err
	}
	return r.Store.GetByHeight(ctx, h)
}

func (r *recStore) GetRange(ctx context.Context, from, to uint64) ([]*vh.Header, error) {
	r.log(storeCall{Method: "GetRange", A: from, B: to})
	if err := r.slow(ctx); err != nil {
		return nil, err
	}
	return r.Store.GetRange(ctx, from, to)
}

func (r *recStore) GetRangeByHeight(ctx context.Context, from *vh.Header, to uint64) ([]*vh.Header, error) {
	r.log(storeCall{Method: "GetRange", A: from.Height() + 1, B: to})
	if err := r.slow(ctx); err != nil {
		return nil, err
	}
	return r.Store.GetRangeByHeight(ctx, from, to)
}

// ---- raw client side of the exchange protocol ----

type rawResp struct {
	Frames  []*p2p_pb.HeaderResponse
	EndErr  string // "" = clean EOF
	Reset   bool
	Elapsed time.Duration
	OpenErr string
}

// rawRequest opens a stream to the server, writes the request (a pb message or raw bytes) and reads frames
// until the stream ends. maxFrames bounds the read loop.
// rawRequestStall is rawRequest for a client that sends only the given bytes and then keeps its side open.
func rawRequestStall(ctx context.Context, from host.Host, to peer.ID, raw []byte) rawResp {
	return rawRequestOpt(ctx, from, to, nil, raw, 200, true)
}

func rawRequest(ctx context.Context, from host.Host, to peer.ID, req *p2p_pb.HeaderRequest, raw []byte, maxFrames int) rawResp {
	return rawRequestOpt(ctx, from, to, req, raw, maxFrames, false)
}

func rawRequestOpt(ctx context.Context, from host.Host, to peer.ID, req *p2p_pb.HeaderRequest, raw []byte, maxFrames int, stall bool) (out rawResp) {
	t0 := time.Now()
	defer func() { out.Elapsed = time.Since(t0) }()
	s, err := from.NewStream(ctx, to, exProtocolID)
	if err != nil {
		out.OpenErr = err.Error()
		return out
	}
	if dl, ok := ctx.Deadline(); ok {
		_ = s.SetDeadline(dl)
	}
	if req != nil {
		_, err = serde.Write(s, req)
	} else {
		_, err = s.Write(raw)
	}
	if err != nil {
		out.EndErr = "write: " + err.Error()
		_ = s.Reset()
		return out
	}
	if !stall {
		_ = s.CloseWrite()
	}
	for i := 0; i < maxFrames; i++ {
		resp := new(p2p_pb.HeaderResponse)
		_, err := serde.Read(s, resp)
		if err != nil {
			if !errors.Is(err, io.EOF) {
				out.EndErr = err.Error()
				out.Reset = errors.Is(err, network.ErrReset)
			}
			break
		}
		out.Frames = append(out.Frames, resp)
	}
	if out.EndErr == "" {
		_ = s.Close()
	} else {
		_ = s.Reset()
	}
	return out
}

// newGater returns a connection gater over an in-memory datastore.
func newGater() (*conngater.BasicConnectionGater, error) {
	return conngater.NewBasicConnectionGater(dssync.MutexWrap(datastore.NewMapDatastore()))
}

// exchangeMetrics is set by the running scenario: clients are then built WithMetrics.
var exchangeMetrics bool

// exchangeNoChainID is set by the running scenario: clients are built without WithChainID (no chain-id filter).
var exchangeNoChainID bool

// exchangeRestart is set by the running scenario: clients are stopped and started again before use.
var exchangeRestart bool

// newClient builds and starts a real p2p.Exchange on h with the given trusted peers.
func newClient(h host.Host, trusted []peer.ID, chainID string, opts ...p2p.Option[p2p.ClientParameters]) (*p2p.Exchange[*vh.Header], error) {
	g, err := newGater()
	if err != nil {
		return nil, err
	}
	all := append([]p2p.Option[p2p.ClientParameters]{
		p2p.WithNetworkID[p2p.ClientParameters](netID),
	}, opts...)
	if !exchangeNoChainID {
		all = append(all, p2p.WithChainID(chainID))
	}
	if exchangeMetrics {
		all = append(all, p2p.WithMetrics[p2p.ClientParameters]())
	}
	ex, err := p2p.NewExchange[*vh.Header](h, peer.IDSlice(trusted), g, all...)
	if err != nil {
		return nil, err
	}
	if err := startScoped(ex.Start); err != nil {
		return nil, err
	}
	if exchangeRestart {
		// a stopped Exchange can be started again
		synctest.Wait()
		c2, cn := vctx(10 * time.Second)
		err := ex.Stop(c2)
		cn()
		if err != nil {
			return nil, fmt.Errorf("Stop before the restart: %w", err)
		}
		if err := startScoped(ex.Start); err != nil {
			return nil, fmt.Errorf("second Start: %w", err)
		}
	}
	// let the peer tracker subscribe to connectedness events before anybody connects
	// (connections made between its initial listing and its subscription would go unnoticed)
	synctest.Wait()
	return ex, nil
}

func fmtHash(h header.Hash) string { return fmt.Sprintf("%X", []byte(h)) }
