package props

import (
	"context"
	"errors"
	"fmt"
	"sync"
	"testing"
	"testing/synctest"
	"time"

	header "github.com/celestiaorg/go-header"
	hsync "github.com/celestiaorg/go-header/sync"
	"pgregory.net/rapid"

	"verif/harness/vh"
)

// C19 — Syncer.Head is fresh, monotone and never adopts an expired header.

type C19Event struct {
	Ev    string `json:"ev"` // grow | sleep | gossip | head | burst | mode | quiesce
	K     int    `json:"k,omitempty"`
	Mode  string `json:"mode,omitempty"`  // getter head mode: "" | stale | expired | error
	Stale int    `json:"stale,omitempty"` // heights below the tip for mode stale
	Delay int    `json:"delay_ms,omitempty"`
}

type C19Scenario struct {
	Start  string     `json:"start"` // empty | fresh | old
	Events []C19Event `json:"events"`
	// Span > 0: every header verifies non-adjacent headers only up to Span heights ahead, so a head further away
	// comes back from the trusted peers with a soft VerifyError and is taken through bifurcation
	Span int `json:"span,omitempty"`
	// Reconf: every option is given twice, first with another value (options are last-wins, so the effective
	// configuration is the same): 1 = first values 60x larger, 2 = first values 1000x smaller
	Reconf int `json:"reconf,omitempty"`
}

const (
	c19Delta    = time.Second
	c19Trusting = 1000 * time.Second
	c19Tip0     = 1200 // headers below ~200 are older than the trusting period at bubble start
)

func genC19(t *rapid.T) C19Scenario {
	s := C19Scenario{Start: rapid.SampledFrom([]string{"empty", "fresh", "fresh", "old"}).Draw(t, "start"),
		Span: rapid.SampledFrom([]int{0, 0, 0, 3}).Draw(t, "span")}
	s.Reconf = rapid.SampledFrom([]int{0, 0, 1, 2}).Draw(t, "reconf")
	n := rapid.IntRange(3, 25).Draw(t, "nevents")
	for i := 0; i < n; i++ {
		var ev C19Event
		switch rapid.IntRange(0, 11).Draw(t, "evclass") {
		case 0, 1:
			ev = C19Event{Ev: "grow", K: rapid.SampledFrom([]int{1, 2, 3, 4, 10, 40}).Draw(t, "k")}
		case 2, 3:
			ev = C19Event{Ev: "sleep", K: rapid.SampledFrom([]int{500, 1000, 2999, 3000, 3001, 5000, 999_000, 1_001_000}).Draw(t, "ms")}
		case 4:
			ev = C19Event{Ev: "gossip"}
		case 5, 6, 7:
			ev = C19Event{Ev: "head"}
		case 8, 9:
			ev = C19Event{Ev: "burst", K: rapid.IntRange(2, 8).Draw(t, "n")}
		case 10:
			ev = C19Event{Ev: "mode", Mode: rapid.SampledFrom([]string{"", "", "stale", "expired", "error", "future"}).Draw(t, "mode"),
				Stale: rapid.IntRange(1, 60).Draw(t, "stale"), Delay: rapid.SampledFrom([]int{0, 10, 500, 1900, 2100}).Draw(t, "delay")}
		default:
			ev = C19Event{Ev: "quiesce"}
		}
		s.Events = append(s.Events, ev)
	}
	return s
}

func runC19(t *testing.T, s C19Scenario) (res Result) {
	bubble(t, func() {
		var spans []uint64
		if s.Span > 0 {
			spans = []uint64{uint64(s.Span)}
		}
		chain := newSyncChain("c19", c19Tip0+3400, c19Tip0, c19Delta, spans)
		var pre []hsync.Option
		switch s.Reconf {
		case 1:
			pre = []hsync.Option{hsync.WithBlockTime(60 * c19Delta), hsync.WithTrustingPeriod(60 * c19Trusting), hsync.WithSyncFromHeight(1), hsync.WithPruningWindow(time.Hour)}
		case 2:
			pre = []hsync.Option{hsync.WithBlockTime(c19Delta / 1000), hsync.WithTrustingPeriod(c19Trusting / 1000), hsync.WithSyncFromHeight(c19Tip0), hsync.WithPruningWindow(time.Second)}
		}
		e, err := newSyncEnv(chain, c19Tip0, c19Delta, nil, append(pre,
			hsync.WithBlockTime(c19Delta), hsync.WithTrustingPeriod(c19Trusting),
			hsync.WithSyncFromHeight(c19Tip0-300), hsync.WithPruningWindow(10_000*time.Hour))...)
		if err != nil {
			res.failf("HARNESS: %v", err)
			return
		}
		defer e.stop()
		ctx, cancel := vctx(10_000 * time.Hour)
		defer cancel()
		switch s.Start {
		case "fresh":
			_ = e.st.Append(ctx, chain.Range(c19Tip0-300, c19Tip0+1)...)
			_ = e.st.Sync(ctx)
		case "old":
			// a store whose head is older than the trusting period
			_ = e.st.Append(ctx, chain.Range(c19Tip0-300, c19Tip0-280)...)
			_ = e.st.Sync(ctx)
			// its head (tip0-281) is 281s old; make it older than the trusting period
			time.Sleep(800 * time.Second)
			e.getter.SetTip(c19Tip0 + 200)
			// NB: the network kept growing meanwhile (tip stamped ~600s in the past is still unexpired)
		}
		// tip so that the tip header's time is "now"
		syncTip := func() {
			now := time.Now()
			tip := e.getter.Tip()
			for tip+1 <= uint64(len(chain.Headers)) && !chain.At(tip+1).Time().After(now) {
				tip++
			}
			e.getter.SetTip(tip)
		}
		syncTip()

		var maxAcked uint64 // highest head the Syncer made its subjective head
		// every event that can move the subjective head is followed by quiescence, so that the subjective
		// head is the store head (nothing pending) whenever an expectation is computed
		subjective := func() *vh.Header {
			if sh, err := e.st.Head(ctx); err == nil {
				return sh
			}
			return nil
		}
		type expectation struct {
			calls   int
			trusted uint64
			kind    string // recent | stale | init
		}
		expect := func() expectation {
			subj := subjective()
			now := time.Now()
			switch {
			case subj == nil:
				return expectation{1, 0, "init"}
			case now.After(subj.Time().Add(c19Trusting)):
				return expectation{1, 0, "init"}
			case !now.After(subj.Time().Add(3 * c19Delta)):
				return expectation{0, 0, "recent"}
			default:
				return expectation{1, subj.H, "stale"}
			}
		}
		headCallsSince := func(n int) []getterCall {
			var out []getterCall
			for _, c := range e.getter.Calls()[n:] {
				if c.Method == "Head" {
					out = append(out, c)
				}
			}
			return out
		}
		var lastReturned uint64
		started := false
		crossed, burstOverlap := false, false
		var lastKind string
		expiredRefused := 0

		judge := func(tag string, ex expectation, calls []getterCall, results []*vh.Header, errs []error, mode string, expiredHdr *vh.Header, overlapping bool) bool {
			lo, hi := ex.calls, ex.calls
			if len(results) > 1 && !overlapping {
				// an instantaneous getter finishes a request before the next caller looks: callers are then
				// sequential, not concurrent, and each may issue its own request
				hi = ex.calls * len(results)
			}
			if len(calls) < lo || len(calls) > hi {
				res.failf("%s: subjective head was %s, expected %d head request(s) to the getter, saw %d (%+v)", tag, ex.kind, ex.calls, len(calls), calls)
				return false
			}
			if ex.calls == 1 && calls[0].Trusted != ex.trusted {
				res.failf("%s: the head request carried TrustedHead=%d, want %d (%s)", tag, calls[0].Trusted, ex.trusted, ex.kind)
				return false
			}
			var first *vh.Header
			var newLast uint64
			for i, h := range results {
				if errs[i] != nil {
					if ex.kind != "init" {
						res.failf("%s: Head() failed although the subjective head is not expired: %v", tag, errs[i])
						return false
					}
					continue
				}
				if h == nil || !chain.IsCanonical(h) {
					res.failf("%s: Head() returned %v, not a header of the chain", tag, h)
					return false
				}
				if expiredHdr != nil && ex.kind == "init" && mode == "expired" && vh.Equal(h, expiredHdr) {
					res.failf("%s: Head() adopted the expired header %v during (re)initialisation", tag, h)
					return false
				}
				if time.Now().After(h.Time().Add(c19Trusting)) && ex.kind == "init" && mode != "future" {
					res.failf("%s: (re)initialisation returned %v which is itself expired", tag, h)
					return false
				}
				if h.H < lastReturned {
					res.failf("%s: Head() returned height %d after %d had been returned", tag, h.H, lastReturned)
					return false
				}
				// fresh: with honest trusted peers holding a recent head, every caller gets a recent header - its
				// own recent subjective head, or what the (shared) request produced - never the stale one that
				// made the request necessary
				var hdelay time.Duration
				e.getter.set(func() { hdelay = e.getter.HeadDelay })
				if tipHdr := chain.At(e.getter.Tip()); mode == "" && hdelay < hsync.NetworkHeadRequestTimeout/2 && !time.Now().After(tipHdr.Time().Add(3*c19Delta)) &&
					time.Now().After(h.Time().Add(3*c19Delta)) {
					res.failf("%s: Head() returned the non-recent header %d although the trusted peers hold the recent head %d", tag, h.H, tipHdr.H)
					return false
				}
				if first == nil {
					first = h
				} else if !vh.Equal(first, h) && (overlapping || s.Span == 0) {
					// callers of one shared request get one result. With an instantaneous getter the callers do not
					// overlap in a request, and with a bounded trust span the first one's bifurcation moves the
					// subjective head up in steps, which a later caller may legitimately see (and return, if recent)
					res.failf("%s: concurrent Head() callers received different heads (%d and %d)", tag, first.H, h.H)
					return false
				}
				if h.H > newLast {
					newLast = h.H
				}
			}
			if newLast > lastReturned {
				lastReturned = newLast
			}
			if ex.kind == "init" && mode == "expired" {
				for i := range results {
					if errs[i] == nil {
						res.failf("%s: (re)initialisation succeeded although the trusted peers only offered an expired header", tag)
						return false
					}
				}
				expiredRefused++
			}
			return true
		}

		for i, ev := range s.Events {
			tag := fmt.Sprintf("event#%d %s", i, ev.Ev)
			switch ev.Ev {
			case "grow":
				time.Sleep(time.Duration(ev.K) * c19Delta)
				syncTip()
			case "sleep":
				before := expect().kind
				time.Sleep(time.Duration(ev.K) * time.Millisecond)
				syncTip()
				if started && expect().kind != before {
					crossed = true
				}
			case "mode":
				e.getter.set(func() {
					e.getter.HeadMode, e.getter.HeadStale = ev.Mode, uint64(ev.Stale)
					e.getter.HeadDelay = time.Duration(ev.Delay) * time.Millisecond
					e.getter.ExpiredHdr = chain.At(5) // stamped ~1200s before bubble start: expired
				})
			case "quiesce":
				if !e.quiesce(400) {
					res.failf("HARNESS: no quiescence at %s", tag)
					return
				}
			case "gossip":
				if !started {
					continue
				}
				gctx, gcancel := context.WithTimeout(ctx, 30*time.Second)
				tip := e.getter.Tip()
				_ = e.sub.deliver(gctx, chain.At(tip))
				gcancel()
				if !e.quiesce(400) {
					res.failf("HARNESS: no quiescence after %s", tag)
					return
				}
			case "head", "burst":
				n := 1
				if ev.Ev == "burst" {
					n = ev.K
				}
				var mode string
				var delay time.Duration
				var exp *vh.Header
				e.getter.set(func() { mode, delay, exp = e.getter.HeadMode, e.getter.HeadDelay, e.getter.ExpiredHdr })
				ex := expect()
				if ex.kind != lastKind && lastKind != "" {
					crossed = true
				}
				lastKind = ex.kind
				ncalls := len(e.getter.Calls())
				results := make([]*vh.Header, n)
				errs := make([]error, n)
				var wg sync.WaitGroup
				for j := 0; j < n; j++ {
					wg.Add(1)
					go func(j int) {
						defer wg.Done()
						if !started {
							// the first Head() of a Syncer's life is its Start
							return
						}
						results[j], errs[j] = e.syncer.Head(ctx)
					}(j)
				}
				if !started {
					wg.Wait()
					err := e.startSyncer(ctx)
					// what the trusted peers offer may itself be expired: an old header in "stale" mode, or the
					// last header of the (finite) chain after a very long sleep - refusing it is the stated behaviour
					offeredExpired := false
					if mode == "" || mode == "stale" {
						off := e.getter.Tip()
						if mode == "stale" {
							var st uint64
							e.getter.set(func() { st = e.getter.HeadStale })
							if off > st {
								off -= st
							} else {
								off = 1
							}
						}
						offeredExpired = time.Now().After(chain.At(off).Time().Add(c19Trusting))
					}
					if err != nil && ex.kind == "init" && (mode == "expired" || mode == "error" || offeredExpired) {
						// legitimate refusal; the Syncer did not start. Nothing may have been adopted.
						if mode == "expired" {
							expiredRefused++
						}
						if sh, herr := e.st.Head(ctx); s.Start == "empty" && !errors.Is(herr, header.ErrEmptyStore) {
							res.failf("%s: Start failed with %v but the store now has head %v", tag, err, sh)
							return
						}
						e.syncer = nil
						continue
					}
					if err != nil {
						res.failf("%s: Syncer.Start failed: %v (getter mode %q, subjective head %s)", tag, err, mode, ex.kind)
						return
					}
					started = true
					if !e.quiesce(400) {
						res.failf("HARNESS: no quiescence after Start")
						return
					}
					hd := subjective()
					if hd == nil || !chain.IsCanonical(hd) {
						res.failf("%s: after Start the store head is %v", tag, hd)
						return
					}
					// (with a future-stamped head the Syncer ends up on the tail it fetched for it; how old that tail may
					// be is not what the statement is about: it speaks of heads "fresh, stale, expired or failing")
					if ex.kind == "init" && mode != "future" && time.Now().After(hd.Time().Add(c19Trusting)) {
						res.failf("%s: Start (re)initialised off %v, which is itself expired", tag, hd)
						return
					}
					lastReturned = 0
					continue
				}
				wg.Wait()
				if n > 1 && ex.calls == 1 && delay > 0 {
					burstOverlap = true
				}
				if !judge(tag, ex, headCallsSince(ncalls), results, errs, mode, exp, delay > 0) {
					res.Obs = map[string]any{"expect": fmt.Sprintf("%+v", ex), "mode": mode, "now_ms": time.Since(vh.Epoch).Milliseconds(), "max_acked": maxAcked}
					return
				}
				if !e.quiesce(400) {
					res.failf("HARNESS: no quiescence after %s", tag)
					return
				}
			}
		}
		if started {
			if !e.quiesce(400) {
				res.failf("HARNESS: no final quiescence")
				return
			}
			if v := e.storeIsCanonicalRun(); v != "" {
				res.failf("final: %s", v)
				return
			}
		}
		res.NonTrivial = burstOverlap || crossed || expiredRefused > 0
		if burstOverlap {
			res.label("burst_overlapping_a_pending_head_request")
		}
		if crossed {
			res.label("recency_or_trusting_boundary_crossed")
		}
		if expiredRefused > 0 {
			res.label("expired_head_refused")
		}
		res.label("start=" + s.Start)
		synctest.Wait()
	})
	return res
}

func TestC19(t *testing.T)       { check(t, "C19", genC19, runC19) }
func TestC19Replay(t *testing.T) { replay(t, "C19", runC19) }
