package props

import (
	"bytes"
	"errors"
	"fmt"
	"strconv"
	"strings"
	"testing"
	"testing/synctest"
	"time"

	header "github.com/celestiaorg/go-header"
	"github.com/celestiaorg/go-header/store"
	"pgregory.net/rapid"

	"verif/harness/vh"
)

// C04 (fork engine) — the store is a dumb chain store: after a head-side DeleteRange the caller may append a
// different branch at the heights it has just removed (roll-back). The statement's clauses are checked with
// "the chain" = whatever was appended last at a height: every height in [Tail, Head] is returned by
// GetByHeight with that exact height and Get(h.Hash()) returns the same header; and (C08's clause) a removed
// header is never retrievable again, neither by hash nor - through a stale index - by height.

type ForkRound struct {
	Back      int   `json:"back"`       // delete [Head-back+1, Head+1), 1 <= back <= Head-Tail
	Len       int   `json:"len"`        // length of the new branch appended at the removed heights
	Split     int   `json:"split"`      // the branch is appended in two calls [..split), [split..) when 0 < split < len
	SyncFirst bool  `json:"sync_first"` // Sync before reading back (otherwise the branch is read from the write batch)
	Warm      []int `json:"warm"`       // offsets below the old head read by height and by hash before the round (fills the caches)
	TailCut   int   `json:"tail_cut"`   // after the round: DeleteRange(Tail, Tail+tail_cut) when it leaves a header
}

type C04ForkScenario struct {
	Prefill int         `json:"prefill"`
	Rounds  []ForkRound `json:"rounds"`
	Restart bool        `json:"restart"` // stop and reopen on the same datastore at the end, then read everything again
}

func genC04Fork(t *rapid.T) C04Scenario {
	f := &C04ForkScenario{Prefill: rapid.IntRange(2, 14).Draw(t, "prefill"), Restart: rapid.Bool().Draw(t, "restart")}
	n := rapid.IntRange(1, 4).Draw(t, "nrounds")
	for i := 0; i < n; i++ {
		f.Rounds = append(f.Rounds, ForkRound{
			Back:      rapid.IntRange(1, 8).Draw(t, "back"),
			Len:       rapid.IntRange(1, 8).Draw(t, "len"),
			Split:     rapid.IntRange(0, 4).Draw(t, "split"),
			SyncFirst: rapid.Bool().Draw(t, "syncfirst"),
			Warm:      rapid.SliceOfN(rapid.IntRange(0, 9), 0, 5).Draw(t, "warm"),
			TailCut:   rapid.SampledFrom([]int{0, 0, 0, 1, 2}).Draw(t, "tailcut"),
		})
	}
	return C04Scenario{Cfg: genStoreCfg(t), Base: 1, Parallel: rapid.IntRange(0, 3).Draw(t, "parallel") == 0, Fork: f}
}

func runC04Fork(t *testing.T, s C04Scenario) (res Result) {
	f := s.Fork
	bubble(t, func() {
		e := newStoreEnv(s.Cfg, f.Prefill+2)
		ctx, cancel := vctx(24 * time.Hour)
		defer cancel()
		if err := e.open(ctx); err != nil {
			if e.rejected != nil {
				res.label("rejected_config")
				return
			}
			res.failf("opening a fresh store failed: %v", err)
			return
		}
		defer func() {
			if e.st != nil {
				c2, cn := vctx(time.Hour)
				_ = e.st.Stop(c2)
				cn()
			}
		}()
		if s.Parallel {
			old := store.VerifSetDeleteParallelThreshold(2)
			defer store.VerifSetDeleteParallelThreshold(old)
		}
		// cur[h] = the header the caller stored last at height h (heights tail..head)
		cur := map[uint64]*vh.Header{}
		var removed []*vh.Header
		tail, head := uint64(1), uint64(f.Prefill)
		pre := e.chain.Range(1, head+1)
		if err := e.st.Append(ctx, pre...); err != nil {
			res.failf("prefill: %v", err)
			return
		}
		for _, h := range pre {
			cur[h.H] = h
		}
		if err := e.st.Sync(ctx); err != nil {
			res.failf("prefill Sync: %v", err)
			return
		}
		warmedReplaced := false
		verify := func(tag string) bool {
			hd, herr := e.st.Head(ctx)
			tl, terr := e.st.Tail(ctx)
			if herr != nil || terr != nil || hd.H != head || tl.H != tail || !vh.Equal(hd, cur[head]) || !vh.Equal(tl, cur[tail]) {
				res.failf("%s: Head=(%v,%v) Tail=(%v,%v), expected tail %v head %v", tag, hd, herr, tl, terr, cur[tail], cur[head])
				return false
			}
			if e.st.Height() != head {
				res.failf("%s: Height()=%d, Head().Height()=%d", tag, e.st.Height(), head)
				return false
			}
			for h := tail; h <= head; h++ {
				want := cur[h]
				got, err := e.st.GetByHeight(ctx, h)
				if err != nil || got.H != h || !vh.Equal(got, want) {
					res.failf("%s: GetByHeight(%d) = (%v, %v) but the header stored last at that height is %v (salt %d)", tag, h, got, err, want, want.Salt)
					return false
				}
				g2, err := e.st.Get(ctx, want.Hash())
				if err != nil || !vh.Equal(g2, want) {
					res.failf("%s: Get(hash of the header at %d) = (%v, %v)", tag, h, g2, err)
					return false
				}
				if ok, err := e.st.Has(ctx, want.Hash()); err != nil || !ok {
					res.failf("%s: Has(hash of the header at %d) = (%v, %v)", tag, h, ok, err)
					return false
				}
				if !e.st.HasAt(ctx, h) {
					res.failf("%s: HasAt(%d) is false inside [Tail, Head]", tag, h)
					return false
				}
			}
			got, err := e.st.GetRange(ctx, tail, head+1)
			if err != nil || uint64(len(got)) != head-tail+1 {
				res.failf("%s: GetRange(%d,%d) = %d headers, %v", tag, tail, head+1, len(got), err)
				return false
			}
			for i, g := range got {
				if !vh.Equal(g, cur[tail+uint64(i)]) {
					res.failf("%s: GetRange(%d,%d)[%d] = %v, expected %v", tag, tail, head+1, i, g, cur[tail+uint64(i)])
					return false
				}
			}
			for _, d := range removed {
				if g, err := e.st.Get(ctx, d.Hash()); err == nil {
					res.failf("%s: removed header %v (salt %d) is retrievable by hash again: %v", tag, d, d.Salt, g)
					return false
				} else if !errors.Is(err, header.ErrNotFound) {
					res.failf("%s: Get(hash of removed header %v) failed with %v instead of ErrNotFound", tag, d, err)
					return false
				}
				if ok, _ := e.st.Has(ctx, d.Hash()); ok {
					res.failf("%s: Has(hash of removed header %v) is true", tag, d)
					return false
				}
			}
			c2, cn := vctx(time.Second)
			g, err := e.st.GetByHeight(c2, head+1)
			cn()
			if err == nil {
				res.failf("%s: GetByHeight(%d) above Head returned %v", tag, head+1, g)
				return false
			}
			if tail > 1 {
				if g, err := e.st.GetByHeight(ctx, tail-1); err == nil {
					res.failf("%s: GetByHeight(%d) below Tail returned %v", tag, tail-1, g)
					return false
				}
			}
			return true
		}
		rawOK := func(tag string) bool {
			for k, v := range e.mem.Snapshot() {
				name := strings.TrimPrefix(k, storePrefix+"/")
				if name == k || !isDigits(name) {
					continue
				}
				h, _ := strconv.ParseUint(name, 10, 64)
				if c := cur[h]; c == nil || h < tail || h > head || !bytes.Equal(c.Hash(), v) {
					res.failf("%s: the datastore's height index has %d -> %X, which is not the header stored last there (tail %d head %d)", tag, h, v, tail, head)
					return false
				}
			}
			return true
		}
		if !verify("after prefill") {
			return
		}
		for ri, r := range f.Rounds {
			tag := fmt.Sprintf("round %d", ri)
			back := uint64(r.Back)
			if back > head-tail {
				back = head - tail
			}
			if back == 0 {
				res.label("round_skipped_single_header")
				continue
			}
			from := head - back + 1
			for _, w := range r.Warm {
				if uint64(w) > head-tail {
					continue
				}
				h := head - uint64(w)
				if _, err := e.st.GetByHeight(ctx, h); err != nil {
					res.failf("%s: warm GetByHeight(%d): %v", tag, h, err)
					return
				}
				if _, err := e.st.Get(ctx, cur[h].Hash()); err != nil {
					res.failf("%s: warm Get(%d): %v", tag, h, err)
					return
				}
				if h >= from {
					warmedReplaced = true
				}
			}
			if err := e.st.DeleteRange(ctx, from, head+1); err != nil {
				res.failf("%s: head-side DeleteRange(%d,%d) failed: %v", tag, from, head+1, err)
				return
			}
			for h := from; h <= head; h++ {
				removed = append(removed, cur[h])
				delete(cur, h)
			}
			head = from - 1
			if !verify(tag + " after the roll-back") {
				return
			}
			// the new branch on top of the remaining head
			var branch []*vh.Header
			prev := cur[head]
			for i := 0; i < r.Len; i++ {
				h := &vh.Header{Chain: prev.Chain, H: prev.H + 1, T: prev.T + int64(time.Second), Prev: prev.Hash(), Span: prev.Span, Salt: uint32(ri + 1)}
				h.Seal()
				branch = append(branch, h)
				prev = h
			}
			if r.Split > 0 && r.Split < len(branch) {
				if err := e.st.Append(ctx, branch[:r.Split]...); err != nil {
					res.failf("%s: Append: %v", tag, err)
					return
				}
				if err := e.st.Append(ctx, branch[r.Split:]...); err != nil {
					res.failf("%s: Append: %v", tag, err)
					return
				}
			} else if err := e.st.Append(ctx, branch...); err != nil {
				res.failf("%s: Append: %v", tag, err)
				return
			}
			for _, h := range branch {
				cur[h.H] = h
			}
			head = prev.H
			if r.SyncFirst {
				if err := e.st.Sync(ctx); err != nil {
					res.failf("%s: Sync: %v", tag, err)
					return
				}
			}
			synctest.Wait()
			if !verify(tag + " after appending the new branch") {
				return
			}
			if err := e.st.Sync(ctx); err != nil {
				res.failf("%s: Sync: %v", tag, err)
				return
			}
			if !verify(tag+" after Sync") || !rawOK(tag+" after Sync") {
				return
			}
			if cut := uint64(r.TailCut); cut > 0 && cut <= head-tail {
				if err := e.st.DeleteRange(ctx, tail, tail+cut); err != nil {
					res.failf("%s: tail-side DeleteRange(%d,%d) failed: %v", tag, tail, tail+cut, err)
					return
				}
				for h := tail; h < tail+cut; h++ {
					removed = append(removed, cur[h])
					delete(cur, h)
				}
				tail += cut
				if !verify(tag+" after the tail cut") || !rawOK(tag+" after the tail cut") {
					return
				}
			}
		}
		if f.Restart {
			c2, cn := vctx(time.Hour)
			err := e.st.Stop(c2)
			cn()
			e.st = nil
			if err != nil {
				res.failf("Stop: %v", err)
				return
			}
			if err := e.open(ctx); err != nil {
				res.failf("reopen: %v", err)
				return
			}
			if !verify("after restart") || !rawOK("after restart") {
				return
			}
		}
		res.NonTrivial = warmedReplaced
		res.label("fork_engine", fmt.Sprintf("rounds=%d", len(f.Rounds)))
		if warmedReplaced {
			res.label("replaced_height_was_cached")
		}
	})
	return res
}

func TestC04Fork(t *testing.T) { check(t, "C04", genC04Fork, runC04) }
