package props

import (
	"errors"
	"time"

	header "github.com/celestiaorg/go-header"

	"verif/harness/vh"
)

// modelVerify is the reference model of header.Verify for vh headers, written from C01's statement:
// every mandatory condition must hold (any failure is a hard one), then the type's own Verify decides;
// its rejection is soft when it says so itself or when the header is not adjacent.
// Oracles of other properties use it instead of header.Verify so that a defect inside Verify cannot hide
// in the oracle.
func modelVerify(tr, un *vh.Header) (ok, soft bool) {
	if len(c01Model(tr, un, time.Now(), header.VerifClockDrift())) > 0 {
		return false, false
	}
	err := tr.Verify(un)
	if err == nil {
		return true, false
	}
	var ve *header.VerifyError
	if errors.As(err, &ve) && ve.SoftFailure {
		return false, true
	}
	return false, un.H != tr.H+1
}
