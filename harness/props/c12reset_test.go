package props

import (
	"context"
	"errors"
	"fmt"
	"strings"
	"testing"
	"testing/synctest"
	"time"

	header "github.com/celestiaorg/go-header"
	"github.com/ipfs/go-datastore"
	"pgregory.net/rapid"

	"verif/harness/vh"
)

// C12, reset engine: readers already waiting for future heights stay subscribed across a whole-store
// deletion (the store is re-initialised in place); the run appended afterwards must still wake them.
// Sequential history, no scheduler: the deletion runs on a quiescent store (after Sync), so the open
// finding C17/wipe-races-flush is out of reach.

type C12ResetScenario struct {
	Cfg     StoreCfg `json:"cfg"`
	Tail    int      `json:"tail"`
	Prefill int      `json:"prefill"` // >= 1
	Readers []int    `json:"readers"` // height = tail+prefill+off, off >= 0
	Wipes   int      `json:"wipes"`   // 1 or 2 whole-store deletions (the second after a short run appended in between)
	Start   int      `json:"start"`   // first height of the run appended after the (last) deletion
	N       int      `json:"n"`
	// Mode "" = whole-store deletion(s) under the waiting readers. "reopen", "lost_head", "lost_tail": instead, the
	// store is stopped and a new Store is opened on its data (with the head/tail pointer record removed, as a crash
	// can leave it); the readers start on the new Store and the run is appended at or above the old head + 1
	Mode string `json:"mode,omitempty"`
}

func genC12Reset(t *rapid.T) C12ResetScenario {
	s := C12ResetScenario{
		Cfg:     genStoreCfg(t),
		Tail:    rapid.SampledFrom([]int{1, 1, 4}).Draw(t, "tail"),
		Prefill: rapid.IntRange(1, 5).Draw(t, "prefill"),
		Wipes:   rapid.SampledFrom([]int{1, 1, 1, 2}).Draw(t, "wipes"),
		N:       rapid.IntRange(1, 8).Draw(t, "n"),
	}
	if s.Cfg.StoreCache == 1 {
		s.Cfg.StoreCache = 2
	}
	if s.Cfg.IndexCache == 1 {
		s.Cfg.IndexCache = 2
	}
	base := s.Tail + s.Prefill
	nr := rapid.IntRange(1, 3).Draw(t, "nreaders")
	for i := 0; i < nr; i++ {
		s.Readers = append(s.Readers, rapid.IntRange(0, 6).Draw(t, "roff"))
	}
	s.Start = rapid.IntRange(1, base+4).Draw(t, "start")
	s.Mode = rapid.SampledFrom([]string{"", "", "", "reopen", "lost_head", "lost_tail"}).Draw(t, "mode")
	if s.Mode != "" {
		s.Wipes = 0
		s.Start = base + (s.Start-1)%4
	}
	return s
}

func runC12Reset(t *testing.T, s C12ResetScenario) (res Result) {
	bubble(t, func() {
		e := newStoreEnv(s.Cfg, storeChainLen)
		ctx, cancel := vctx(24 * time.Hour)
		defer cancel()
		if err := e.open(ctx); err != nil {
			res.failf("opening a fresh store failed: %v", err)
			return
		}
		defer func() {
			c2, cn := vctx(time.Hour)
			_ = e.st.Stop(c2)
			cn()
		}()
		base := uint64(s.Tail + s.Prefill)
		put := func(from, to uint64, tag string) bool {
			if err := e.st.Append(ctx, e.chain.Range(from, to)...); err != nil {
				res.failf("%s: Append [%d,%d): %v", tag, from, to, err)
				return false
			}
			if err := e.st.Sync(ctx); err != nil {
				res.failf("%s: Sync: %v", tag, err)
				return false
			}
			return true
		}
		wipe := func(tag string) bool {
			head, err := e.st.Head(ctx)
			if err != nil {
				res.failf("%s: Head: %v", tag, err)
				return false
			}
			tail, err := e.st.Tail(ctx)
			if err != nil {
				res.failf("%s: Tail: %v", tag, err)
				return false
			}
			if err := e.st.DeleteRange(ctx, tail.H, head.H+1); err != nil {
				res.failf("%s: DeleteRange(%d, %d) over the whole store: %v", tag, tail.H, head.H+1, err)
				return false
			}
			return true
		}
		if !put(uint64(s.Tail), base, "prefill") {
			return
		}
		synctest.Wait()

		if s.Mode != "" {
			c2, cn := vctx(time.Hour)
			err := e.st.Stop(c2)
			cn()
			if err != nil {
				res.failf("Stop: %v", err)
				return
			}
			lost := map[string]string{"lost_head": "/head", "lost_tail": "/tail"}[s.Mode]
			if lost != "" {
				n := 0
				for _, k := range e.mem.Keys() {
					if strings.HasSuffix(k, lost) {
						_ = e.mem.Delete(ctx, datastore.NewKey(k))
						n++
					}
				}
				if n != 1 {
					res.failf("HARNESS: %d keys ending in %s", n, lost)
					return
				}
			}
			if err := e.open(ctx); err != nil {
				res.failf("Start on the data of the stopped store (%s): %v", s.Mode, err)
				return
			}
			head, err := e.st.Head(ctx)
			if err != nil {
				res.failf("%s: Head: %v", s.Mode, err)
				return
			}
			if hh := e.st.Height(); hh != head.H {
				res.failf("%s: after Start Height() is %d but Head() is at %d", s.Mode, hh, head.H)
				return
			}
			if s.Tail > 1 {
				// at or below Height and not stored: ErrNotFound promptly
				c1, cn := vctx(time.Minute)
				t0 := time.Now()
				g, err := e.st.GetByHeight(c1, uint64(s.Tail-1))
				cn()
				if err == nil || !errors.Is(err, header.ErrNotFound) || time.Since(t0) > time.Second {
					res.failf("%s: GetByHeight(%d) below Tail %d (Height()=%d) returned (%v, %v) after %v instead of ErrNotFound promptly", s.Mode, s.Tail-1, s.Tail, e.st.Height(), g, err, time.Since(t0))
					return
				}
			}
		}

		obs := make([]c12ReaderObs, len(s.Readers))
		done := make([]chan struct{}, len(s.Readers))
		rctx, rcancel := context.WithCancel(ctx)
		defer rcancel()
		for i, off := range s.Readers {
			i := i
			obs[i].Height = base + uint64(off)
			done[i] = make(chan struct{})
			go func() {
				defer close(done[i])
				got, err := e.st.GetByHeight(rctx, obs[i].Height)
				obs[i].Finished = true
				if err != nil {
					obs[i].Err = err.Error()
					if errors.Is(err, header.ErrNotFound) {
						obs[i].Err = "NOTFOUND: " + obs[i].Err
					}
				} else if got != nil {
					obs[i].Got = got.H
					if !e.chain.IsCanonical(got) {
						obs[i].Err = "non-canonical header returned"
					}
				}
			}()
		}
		synctest.Wait()
		for i := range obs {
			if obs[i].Finished {
				res.failf("reader %d for height %d above Head %d returned (%d, %q) before anything was appended", i, obs[i].Height, base-1, obs[i].Got, obs[i].Err)
				return
			}
		}
		if s.Mode == "" && !wipe("first deletion") {
			return
		}
		appended := map[uint64]bool{}
		if s.Wipes == 2 {
			// a short run far below every reader, deleted again
			if !put(1, 2, "intermediate run") || !wipe("second deletion") {
				return
			}
		}
		from, to := uint64(s.Start), uint64(s.Start+s.N)
		if !put(from, to, "run after the deletion") {
			return
		}
		for h := from; h < to; h++ {
			appended[h] = true
		}
		synctest.Wait()
		if p := takeStorePanics(); len(p) > 0 {
			res.failf("store goroutine panicked: %v", p)
			return
		}
		height := e.st.Height()
		woken := 0
		for i := range obs {
			o := &obs[i]
			switch {
			case appended[o.Height]:
				woken++
				if !o.Finished {
					res.failf("reader %d, waiting for height %d since before the whole-store deletion, is still blocked although [%d,%d) has been appended (Height()=%d)", i, o.Height, from, to, height)
					return
				}
				if o.Got != o.Height || o.Err != "" {
					res.failf("reader %d for height %d finished with (%d, %q) although the header has been appended", i, o.Height, o.Got, o.Err)
					return
				}
			default:
				if o.Finished && o.Got != 0 {
					res.failf("reader %d got header %d for height %d that is not stored", i, o.Got, o.Height)
					return
				}
				if o.Finished && o.Height > height {
					res.failf("reader %d for height %d above Height()=%d returned early with %q instead of waiting for its context", i, o.Height, height, o.Err)
					return
				}
			}
		}
		rcancel()
		synctest.Wait()
		for i := range done {
			select {
			case <-done[i]:
			default:
				res.failf("reader %d for height %d is still blocked after its context was cancelled", i, obs[i].Height)
				return
			}
		}
		res.NonTrivial = woken > 0
		res.label(fmt.Sprintf("wipes=%d", s.Wipes), fmt.Sprintf("woken=%d", woken), "mode="+s.Mode)
		if from != base {
			res.label("run_starts_elsewhere")
		}
		res.Obs = map[string]any{"readers": obs, "height": height, "run": []uint64{from, to}}
		_ = vh.Equal
	})
	return res
}

func TestC12Reset(t *testing.T) {
	check(t, "C12", func(t *rapid.T) C12Scenario { r := genC12Reset(t); return C12Scenario{Reset: &r} }, runC12)
}
