package props

import (
	"context"
	"encoding/binary"
	"fmt"
	"math"
	"os"
	"testing"
	"time"

	header "github.com/celestiaorg/go-header"
	"github.com/celestiaorg/go-header/p2p"
	p2p_pb "github.com/celestiaorg/go-header/p2p/pb"
	"pgregory.net/rapid"

	"verif/harness/vh"
)

// C10 — ExchangeServer answers any request with bounded work and only true store data.

type C10Req struct {
	Kind      string `json:"kind"` // origin | hash | empty | raw | stall (a prefix of a valid request, then silence with the stream left open)
	OriginSel int    `json:"origin_sel,omitempty"`
	AmountSel int    `json:"amount_sel,omitempty"`
	HashSel   int    `json:"hash_sel,omitempty"` // 0 known 1 unknown 2 empty (present, zero length) 3 oversized 4 short prefix of a known hash 5 known hash plus one byte 6 absent (nil)
	HashAt    int    `json:"hash_at,omitempty"`
	SlowStore bool   `json:"slow_store,omitempty"` // the store takes 6s per read for this request (request timeout 2s)
	Raw       []byte `json:"raw,omitempty"`
}

type C10Scenario struct {
	Tail uint64   `json:"tail"`
	Len  int      `json:"len"`
	Reqs []C10Req `json:"reqs"`
	// Metrics: the server is built WithMetrics (a configuration that must not change any answer)
	Metrics bool `json:"metrics,omitempty"`
}

const (
	c10OriginSels = 11
	c10AmountSels = 9
)

func genC10Req(t *rapid.T) C10Req {
	r := C10Req{}
	switch rapid.IntRange(0, 13).Draw(t, "kind") {
	case 13:
		// tail-side pruning between two requests: what was served (and cached) before must not be served after
		r.Kind = "prune"
		r.HashAt = rapid.IntRange(1, 3).Draw(t, "prunek")
		if rapid.Bool().Draw(t, "rollback") {
			// head-side roll-back between two requests: the last HashAt headers are deleted and another branch
			// is appended over their heights; what was served before for those heights is no store data any more
			r.Kind = "rollback"
		}
	case 11, 12:
		// hash of one of the first four headers of the initial store, pruned or not by now
		r.Kind = "hash"
		r.HashSel = 7
		r.HashAt = rapid.IntRange(0, 3).Draw(t, "hashat0")
		r.AmountSel = rapid.IntRange(0, c10AmountSels-1).Draw(t, "amount")
	case 10:
		r.Kind = "stall"
		r.OriginSel = rapid.IntRange(0, c10OriginSels-1).Draw(t, "origin")
		r.AmountSel = rapid.IntRange(0, c10AmountSels-1).Draw(t, "amount")
		r.HashAt = rapid.IntRange(0, 12).Draw(t, "stallcut") // how many bytes of the framed request are sent
	case 0:
		r.Kind = "hash"
		r.HashSel = rapid.IntRange(0, 6).Draw(t, "hashsel")
		r.HashAt = rapid.IntRange(0, 200).Draw(t, "hashat")
		r.AmountSel = rapid.IntRange(0, c10AmountSels-1).Draw(t, "amount")
	case 1:
		r.Kind = "empty"
		r.AmountSel = rapid.IntRange(0, c10AmountSels-1).Draw(t, "amount")
	case 2:
		r.Kind = "raw"
		r.Raw = rapid.SliceOfN(rapid.Byte(), 0, 40).Draw(t, "raw")
	default:
		r.Kind = "origin"
		r.OriginSel = rapid.IntRange(0, c10OriginSels-1).Draw(t, "origin")
		r.AmountSel = rapid.IntRange(0, c10AmountSels-1).Draw(t, "amount")
	}
	r.SlowStore = rapid.IntRange(0, 7).Draw(t, "slowstore") == 0
	return r
}

func genC10(t *rapid.T) C10Scenario {
	s := C10Scenario{
		Tail: rapid.SampledFrom([]uint64{1, 2, 5, 90}).Draw(t, "tail"),
		Len:  rapid.SampledFrom([]int{1, 3, 70, 140}).Draw(t, "len"),
	}
	s.Metrics = rapid.IntRange(0, 2).Draw(t, "metrics") == 0
	n := rapid.IntRange(1, 20).Draw(t, "nreqs")
	for i := 0; i < n; i++ {
		s.Reqs = append(s.Reqs, genC10Req(t))
	}
	return s
}

func c10Origin(sel int, tail, head uint64) uint64 {
	switch sel {
	case 0:
		return 0
	case 1:
		return 1
	case 2:
		return tail - 1
	case 3:
		return tail
	case 4:
		return (tail + head) / 2
	case 5:
		return head - 1
	case 6:
		return head
	case 7:
		return head + 1
	case 8:
		return head + 1000
	case 9:
		return math.MaxUint64
	default:
		return math.MaxUint64 - 63
	}
}

func c10Amount(sel int) uint64 {
	return []uint64{0, 1, 2, 63, 64, 65, 10_000, math.MaxUint64, math.MaxUint64 - 5}[sel]
}

const (
	c10Read  = time.Second
	c10Req_  = 2 * time.Second
	c10Write = time.Second
)

// c10Judge checks one answered request. It is also used by the fuzz target.
func c10Judge(chain *vh.Chain, tail, head uint64, pb *p2p_pb.HeaderRequest, resp rawResp, calls []storeCall) (verdict string, boundary bool) {
	if resp.OpenErr != "" {
		return "HARNESS: cannot open stream: " + resp.OpenErr, false
	}
	if resp.Elapsed > c10Read+c10Req_+c10Write {
		return fmt.Sprintf("server kept the stream for %v, beyond read+request+write deadlines", resp.Elapsed), false
	}
	var origin, amount uint64
	var hash []byte
	isOrigin, isHash := false, false
	if pb != nil {
		amount = pb.Amount
		switch d := pb.Data.(type) {
		case *p2p_pb.HeaderRequest_Origin:
			origin, isOrigin = d.Origin, true
		case *p2p_pb.HeaderRequest_Hash:
			hash, isHash = d.Hash, true
		}
	}
	// ---- bounded, relevant store reads ----
	for _, c := range calls {
		switch c.Method {
		case "GetRange":
			if !isOrigin {
				return fmt.Sprintf("store range read GetRange(%d,%d) for a non-range request", c.A, c.B), false
			}
			if c.B <= c.A || c.B-c.A > header.MaxRangeRequestSize {
				return fmt.Sprintf("store read GetRange(%d,%d) spans more than MaxRangeRequestSize headers", c.A, c.B), true
			}
			if origin == 0 {
				break // head request: any single-header read is fine
			}
			end := origin + amount
			if end < origin {
				end = math.MaxUint64
			}
			if c.A < origin || c.B > end {
				return fmt.Sprintf("store read GetRange(%d,%d) goes outside the requested heights [%d,%d)", c.A, c.B, origin, end), true
			}
		case "GetByHeight":
			if !isOrigin {
				return fmt.Sprintf("store read GetByHeight(%d) for a non-range request", c.A), false
			}
			end := origin + amount
			if end < origin {
				end = math.MaxUint64
			}
			if origin != 0 && (c.A < origin || c.A >= end) {
				return fmt.Sprintf("store read GetByHeight(%d) outside the requested heights [%d,%d)", c.A, origin, end), true
			}
		case "Get":
			if !isHash || c.Hash != header.Hash(hash).String() {
				return fmt.Sprintf("store read Get(%s) which is not the requested hash", c.Hash), false
			}
		}
	}
	// ---- the reply ----
	if len(resp.Frames) == 0 {
		if resp.EndErr == "" {
			// clean close without a frame: neither NOT_FOUND, reset nor data
			return "server closed the stream cleanly without any response frame", false
		}
		return "", false // reset
	}
	if len(resp.Frames) == 1 && resp.Frames[0].StatusCode == p2p_pb.StatusCode_NOT_FOUND {
		if len(resp.Frames[0].Body) != 0 {
			return "NOT_FOUND frame carries a body", false
		}
		return "", false
	}
	var got []*vh.Header
	for i, f := range resp.Frames {
		if f.StatusCode != p2p_pb.StatusCode_OK {
			return fmt.Sprintf("frame %d has status %v among %d frames", i, f.StatusCode, len(resp.Frames)), false
		}
		h := new(vh.Header)
		if err := h.UnmarshalBinary(f.Body); err != nil {
			return fmt.Sprintf("OK frame %d does not decode into a header", i), false
		}
		got = append(got, h)
	}
	switch {
	case isHash:
		if len(got) != 1 || fmtHash(got[0].Hash()) != fmtHash(hash) {
			return fmt.Sprintf("hash request answered with %d headers / wrong hash", len(got)), false
		}
		if !chain.IsCanonical(got[0]) || got[0].H < tail || got[0].H > head {
			return "hash request answered with a header that is not in the store", false
		}
	case isOrigin && origin == 0:
		if len(got) != 1 || got[0].H != head || !chain.IsCanonical(got[0]) {
			return fmt.Sprintf("head request answered with %d headers, first %v; store head is %d", len(got), got[0], head), false
		}
	case isOrigin:
		for i, g := range got {
			if g.H != origin+uint64(i) || !chain.IsCanonical(g) || g.H < tail || g.H > head {
				return fmt.Sprintf("OK frame %d is %v, expected the store's header at %d", i, g, origin+uint64(i)), true
			}
		}
		if uint64(len(got)) > amount {
			return fmt.Sprintf("%d headers returned for amount %d", len(got), amount), true
		}
		if uint64(len(got)) < amount {
			last := origin + amount - 1
			if last >= origin && last <= head {
				return fmt.Sprintf("only %d of %d headers returned although the range [%d,%d] does not extend past head %d", len(got), amount, origin, last, head), true
			}
		}
	default:
		return "data frames returned for a request without origin or hash", false
	}
	return "", false
}

func (r C10Req) build(chain *vh.Chain, tail0, tail, head uint64) (*p2p_pb.HeaderRequest, []byte, bool) {
	boundary := false
	switch r.Kind {
	case "origin":
		o, a := c10Origin(r.OriginSel, tail, head), c10Amount(r.AmountSel)
		boundary = (r.OriginSel >= 2 && r.OriginSel != 4) || r.AmountSel >= 3
		return &p2p_pb.HeaderRequest{Data: &p2p_pb.HeaderRequest_Origin{Origin: o}, Amount: a}, nil, boundary
	case "hash":
		var h []byte
		switch r.HashSel {
		case 0:
			h = chain.At(tail + uint64(r.HashAt)%(head-tail+1)).Hash()
		case 1:
			h = chain.At(head + 1).Hash()
			if tail > 1 && r.HashAt%2 == 0 {
				h = chain.At(tail - 1).Hash()
				boundary = true
			}
		case 2:
			h = []byte{} // present on the wire with length 0
		case 3:
			h = make([]byte, 5000)
		case 4:
			k := chain.At(tail + uint64(r.HashAt)%(head-tail+1)).Hash()
			h = append([]byte{}, k[:1+r.HashAt%(len(k)-1)]...)
			boundary = true
		case 5:
			h = append(append([]byte{}, chain.At(tail+uint64(r.HashAt)%(head-tail+1)).Hash()...), 0)
		case 7:
			at := min(tail0+uint64(r.HashAt), head)
			h = chain.At(at).Hash()
			boundary = at < tail
		default:
			h = nil // gogo does not put a nil oneof value on the wire: the request arrives without data
		}
		return &p2p_pb.HeaderRequest{Data: &p2p_pb.HeaderRequest_Hash{Hash: h}, Amount: c10Amount(r.AmountSel)}, nil, boundary
	case "empty":
		return &p2p_pb.HeaderRequest{Amount: c10Amount(r.AmountSel)}, nil, false
	default:
		return nil, r.Raw, false
	}
}

func runC10(t *testing.T, s C10Scenario) (res Result) {
	bubble(t, func() {
		head := s.Tail + uint64(s.Len) - 1
		chain := vh.ChainSpec{ChainID: "c10", N: int(head) + 3, StartMs: -int64(head+100) * 1000}.Build()
		st, _, err := newChainStore(chain, s.Tail, head)
		if err != nil {
			res.failf("HARNESS: store: %v", err)
			return
		}
		defer stopStore(st)
		ne, err := newNet(2)
		if err != nil {
			res.failf("HARNESS: mocknet: %v", err)
			return
		}
		defer ne.close()
		rec := &recStore{Store: st}
		sopts := []p2p.Option[p2p.ServerParameters]{
			p2p.WithNetworkID[p2p.ServerParameters](netID),
			p2p.WithReadDeadline[p2p.ServerParameters](c10Read),
			p2p.WithRequestTimeout[p2p.ServerParameters](c10Req_),
			p2p.WithWriteDeadline[p2p.ServerParameters](c10Write)}
		if s.Metrics {
			sopts = append(sopts, p2p.WithMetrics[p2p.ServerParameters]())
		}
		srv, err := p2p.NewExchangeServer[*vh.Header](ne.hosts[0], rec, sopts...)
		if err != nil {
			res.failf("HARNESS: server: %v", err)
			return
		}
		_ = startScoped(srv.Start)
		defer srv.Stop(context.Background()) //nolint:errcheck
		if err := ne.connectAll(); err != nil {
			res.failf("HARNESS: connect: %v", err)
			return
		}
		nBoundary, nPruned, nRolled := 0, 0, 0
		tail := s.Tail
		for i, r := range s.Reqs {
			if r.Kind == "rollback" {
				k := uint64(max(r.HashAt, 1))
				if from := head + 1 - k; k <= head && from > tail && from > 1 {
					nchain := forkChain(chain, from, uint32(7000+i))
					ctx, cancel := vctx(30 * time.Second)
					err := st.DeleteRange(ctx, from, head+1)
					if err == nil {
						err = st.Append(ctx, nchain.Range(from, head+1)...)
					}
					if err == nil {
						err = st.Sync(ctx)
					}
					cancel()
					if err != nil {
						res.failf("HARNESS: step #%d: roll-back to %d and append of the other branch: %v", i, from-1, err)
						return
					}
					chain = nchain
					nRolled++
				}
				continue
			}
			if r.Kind == "prune" {
				to := min(tail+uint64(max(r.HashAt, 1)), head) // keeps the head
				if to > tail {
					ctx, cancel := vctx(30 * time.Second)
					err := st.DeleteRange(ctx, tail, to)
					cancel()
					if err != nil {
						res.failf("HARNESS: step #%d: DeleteRange(%d, %d): %v", i, tail, to, err)
						return
					}
					tail = to
					nPruned++
				}
				continue
			}
			pb, raw, boundary := r.build(chain, s.Tail, tail, head)
			if boundary && tail > 1 {
				nBoundary++
			}
			rec.take()
			if r.Kind == "stall" {
				// the client sends a few bytes of a valid request (possibly none) and then nothing, keeping its
				// side open: the server must give up by its read deadline
				full := &p2p_pb.HeaderRequest{Data: &p2p_pb.HeaderRequest_Origin{Origin: c10Origin(r.OriginSel, tail, head)}, Amount: c10Amount(r.AmountSel)}
				body, _ := full.Marshal()
				framed := append(binary.AppendUvarint(nil, uint64(len(body))), body...)
				cut := min(r.HashAt, len(framed)-1)
				ctx, cancel := vctx(30 * time.Second)
				resp := rawRequestStall(ctx, ne.hosts[1], ne.hosts[0].ID(), framed[:cut])
				cancel()
				if len(resp.Frames) > 0 {
					res.failf("request #%d %+v: the server answered with %d frame(s) to a request it never received completely", i, r, len(resp.Frames))
					return
				}
				if resp.Elapsed > c10Read+time.Second {
					res.failf("request #%d %+v: the server kept a stream whose request never arrived for %v (read deadline %v)", i, r, resp.Elapsed, c10Read)
					return
				}
				nBoundary++
				continue
			}
			if r.SlowStore {
				rec.setDelay(6 * time.Second)
			}
			ctx, cancel := vctx(30 * time.Second)
			resp := rawRequest(ctx, ne.hosts[1], ne.hosts[0].ID(), pb, raw, 200)
			cancel()
			rec.setDelay(0)
			var judged *p2p_pb.HeaderRequest = pb
			if pb == nil {
				// raw bytes: judge against whatever they decode to (if they do)
				p := new(p2p_pb.HeaderRequest)
				if len(raw) > 0 {
					if n, err := decodeDelimited(raw, p); err == nil && n > 0 {
						judged = p
					}
				}
			}
			if os.Getenv("VERIF_C10_DEBUG") != "" {
				fmt.Printf("DBG request #%d elapsed=%v frames=%d end=%q\n", i, resp.Elapsed, len(resp.Frames), resp.EndErr)
			}
			v, _ := c10Judge(chain, tail, head, judged, resp, rec.take())
			if v != "" {
				res.failf("request #%d %+v (store [%d,%d], initially [%d,%d]): %s", i, r, tail, head, s.Tail, head, v)
				res.Obs = map[string]any{"tail": tail, "head": head, "frames": len(resp.Frames), "end": resp.EndErr, "elapsed": resp.Elapsed.String()}
				return
			}
		}
		res.NonTrivial = nBoundary > 0
		res.label(fmt.Sprintf("tail_above_1=%v", tail > 1))
		if nPruned > 0 {
			res.label("pruned_between_requests")
		}
		if nRolled > 0 {
			res.label("head_rolled_back_between_requests")
		}
		if nBoundary > 0 {
			res.label("boundary_request_on_pruned_store")
		}
	})
	return res
}

// forkChain returns a chain that shares c's headers below from and carries another branch (same heights and
// times, other content, valid links) from there on.
func forkChain(c *vh.Chain, from uint64, salt uint32) *vh.Chain {
	n := &vh.Chain{Spec: c.Spec}
	n.Headers = append(n.Headers, c.Headers[:from-1]...)
	for i := int(from - 1); i < len(c.Headers); i++ {
		h := c.Headers[i].Clone()
		h.Salt = salt
		h.Prev = n.Headers[i-1].Hash()
		h.Seal()
		n.Headers = append(n.Headers, h)
	}
	return n
}

// decodeDelimited decodes a uvarint-length-prefixed HeaderRequest from raw bytes.
func decodeDelimited(raw []byte, p *p2p_pb.HeaderRequest) (int, error) {
	defer func() { _ = recover() }()
	var size uint64
	var n int
	for shift := uint(0); n < len(raw) && n < 10; shift += 7 {
		b := raw[n]
		n++
		size |= uint64(b&0x7f) << shift
		if b < 0x80 {
			if uint64(len(raw)-n) < size {
				return 0, fmt.Errorf("short")
			}
			if err := p.Unmarshal(raw[n : n+int(size)]); err != nil {
				return 0, err
			}
			return n + int(size), nil
		}
	}
	return 0, fmt.Errorf("no varint")
}

func TestC10(t *testing.T)       { check(t, "C10", genC10, runC10) }
func TestC10Replay(t *testing.T) { replay(t, "C10", runC10) }

// FuzzC10Request feeds raw request bytes to a server over a pruned store (tail 5, head 74) and
// applies the C10 oracle to whatever comes back.
func FuzzC10Request(f *testing.F) {
	seed := func(pb *p2p_pb.HeaderRequest) {
		b, _ := pb.Marshal()
		f.Add(append([]byte{byte(len(b))}, b...))
	}
	for _, o := range []uint64{0, 1, 4, 5, 40, 74, 75, math.MaxUint64} {
		for _, a := range []uint64{0, 1, 64, 65, math.MaxUint64} {
			seed(&p2p_pb.HeaderRequest{Data: &p2p_pb.HeaderRequest_Origin{Origin: o}, Amount: a})
		}
	}
	seed(&p2p_pb.HeaderRequest{Data: &p2p_pb.HeaderRequest_Hash{Hash: []byte("nope")}, Amount: 1})
	seed(&p2p_pb.HeaderRequest{Data: &p2p_pb.HeaderRequest_Hash{Hash: []byte{}}, Amount: 1})
	seed(&p2p_pb.HeaderRequest{Amount: 3})
	f.Add([]byte{})
	f.Add([]byte{0xff, 0xff, 0xff, 0xff, 0x0f})
	col := evidFor("C10")
	f.Fuzz(func(t *testing.T, raw []byte) {
		if len(raw) > 4096 {
			return
		}
		const tail, head = 5, 74
		bubble(t, func() {
			chain := vh.ChainSpec{ChainID: "c10", N: head + 3, StartMs: -int64(head+100) * 1000}.Build()
			st, _, err := newChainStore(chain, tail, head)
			if err != nil {
				t.Fatalf("HARNESS: %v", err)
			}
			defer stopStore(st)
			ne, err := newNet(2)
			if err != nil {
				t.Fatalf("HARNESS: %v", err)
			}
			defer ne.close()
			rec := &recStore{Store: st}
			srv, _ := p2p.NewExchangeServer[*vh.Header](ne.hosts[0], rec,
				p2p.WithNetworkID[p2p.ServerParameters](netID),
				p2p.WithReadDeadline[p2p.ServerParameters](c10Read),
				p2p.WithRequestTimeout[p2p.ServerParameters](c10Req_),
				p2p.WithWriteDeadline[p2p.ServerParameters](c10Write))
			_ = startScoped(srv.Start)
			defer srv.Stop(context.Background()) //nolint:errcheck
			_ = ne.connectAll()
			ctx, cancel := vctx(30 * time.Second)
			resp := rawRequest(ctx, ne.hosts[1], ne.hosts[0].ID(), nil, raw, 200)
			cancel()
			var judged *p2p_pb.HeaderRequest
			p := new(p2p_pb.HeaderRequest)
			if n, err := decodeDelimited(raw, p); err == nil && n > 0 {
				judged = p
			}
			col.AddExtra("fuzz_execs", 1)
			if v, _ := c10Judge(chain, tail, head, judged, resp, rec.take()); v != "" {
				t.Fatalf("C10 violated: %s (request bytes %x)", v, raw)
			}
		})
	})
}
