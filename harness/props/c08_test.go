package props

import (
	"context"
	"errors"
	"fmt"
	"math"
	"sort"
	"sync"
	"testing"
	"testing/synctest"
	"time"

	header "github.com/celestiaorg/go-header"
	"github.com/celestiaorg/go-header/store"
	"github.com/ipfs/go-datastore"
	"pgregory.net/rapid"

	"verif/harness/evid"
	"verif/harness/vh"
)

// C08 — DeleteRange removes exactly the requested end of the chain, permanently.
// C14 — OnDelete handlers run once per removed header, before it becomes unreadable.
// Both are judged on the same executions (one scenario type, one executor, two oracles).

type HandlerSpec struct {
	Mode   string `json:"mode"`    // ok | error | panic | sleep
	FailAt int    `json:"fail_at"` // offset into the deleted range of the height at which this handler misbehaves (mod range length); -1 never
	// Err selects what an "error" handler returns: "" = a plain error; ds_notfound / hdr_notfound = an error wrapping
	// datastore.ErrNotFound / header.ErrNotFound (a handler that cleans up its own records may well pass that on);
	// ctx_canceled = context.Canceled. For a "panic" handler it selects the panic value: "" = a string, p_int, p_struct,
	// p_error, p_runtime (a runtime error).
	Err string `json:"err,omitempty"`
}

type DelScenario struct {
	Cfg           StoreCfg      `json:"cfg"`
	Base          uint64        `json:"base"`
	Len           int           `json:"len"`
	Orphans       int           `json:"orphans"`       // headers appended above a gap
	SyncBefore    bool          `json:"sync_before"`   // Sync after the initial appends
	ExtraPending  int           `json:"extra_pending"` // headers appended after that (left to the write batch)
	Parallel      bool          `json:"parallel"`      // parallel-delete threshold lowered to 2
	FromSel       int           `json:"from_sel"`
	ToSel         int           `json:"to_sel"`
	K             int           `json:"k"`
	Handlers      []HandlerSpec `json:"handlers"`
	DeadlineSteps int           `json:"deadline_steps,omitempty"` // ctx deadline = this many handler sleeps (only with a sleep handler)
	Cont          []StoreOp     `json:"cont"`
	// BelowQueued > 0: that many headers right below the tail are appended immediately before the deletion is
	// called, so they are still in the write queue when it starts; the range was chosen against the old tail
	BelowQueued int `json:"below_queued,omitempty"`
	// AboveQueued > 0: that many headers right above the head are appended immediately before the deletion is called
	// (still in the write queue when it starts); a range that reached the head is extended over them
	AboveQueued int `json:"above_queued,omitempty"`
	// DsFault > 0 (C08 only, sequential tail-side prefix deletions): the DsFault-th datastore write that
	// contains a delete fails once during the call; the retried deletion must then complete it.
	DsFault int `json:"ds_fault,omitempty"`
}

var delContKinds = []string{"append_next", "append_next", "sync", "settle", "restart_new", "restart_stopstart", "append_repeat", "append_fill"}

func genDel(t *rapid.T, faulty bool) DelScenario {
	s := DelScenario{
		Cfg:          genStoreCfg(t),
		Base:         rapid.SampledFrom([]uint64{1, 2, 5, 40}).Draw(t, "base"),
		Len:          rapid.IntRange(1, 24).Draw(t, "len"),
		Orphans:      rapid.SampledFrom([]int{0, 0, 0, 1, 3}).Draw(t, "orphans"),
		SyncBefore:   rapid.Bool().Draw(t, "syncbefore"),
		ExtraPending: rapid.IntRange(0, 5).Draw(t, "extrapending"),
		Parallel:     rapid.IntRange(0, 3).Draw(t, "parallel") == 0,
		K:            rapid.IntRange(1, 20).Draw(t, "k"),
	}
	// 0 prefix(k) 1 suffix(k) 2 whole: valid shapes; otherwise explicit selectors
	switch rapid.IntRange(0, 9).Draw(t, "shape") {
	case 0, 1, 2:
		s.FromSel, s.ToSel = selT, selTk
	case 3, 4, 5:
		s.FromSel, s.ToSel = selHk, selH1
	case 6:
		s.FromSel, s.ToSel = selT, selH1
	default:
		s.FromSel = rapid.IntRange(0, selCount-1).Draw(t, "fromsel")
		s.ToSel = rapid.IntRange(0, selCount-1).Draw(t, "tosel")
	}
	if s.Base > 1 && rapid.IntRange(0, 5).Draw(t, "belowq") == 0 {
		s.BelowQueued = rapid.IntRange(1, int(min(s.Base-1, 3))).Draw(t, "belowqueued")
	}
	if s.BelowQueued == 0 && rapid.IntRange(0, 5).Draw(t, "aboveq") == 0 {
		s.AboveQueued = rapid.IntRange(1, 3).Draw(t, "abovequeued")
	}
	nh := rapid.IntRange(0, 3).Draw(t, "nhandlers")
	for i := 0; i < nh; i++ {
		h := HandlerSpec{Mode: "ok", FailAt: -1}
		if faulty && rapid.IntRange(0, 2).Draw(t, "hfaulty") == 0 {
			h.Mode = rapid.SampledFrom([]string{"error", "panic"}).Draw(t, "hmode")
			h.FailAt = rapid.IntRange(0, 12).Draw(t, "hfailat")
			if h.Mode == "error" {
				h.Err = rapid.SampledFrom([]string{"", "", "ds_notfound", "hdr_notfound", "ctx_canceled"}).Draw(t, "herr")
			} else {
				h.Err = rapid.SampledFrom([]string{"", "", "p_int", "p_struct", "p_error", "p_runtime"}).Draw(t, "hpanic")
			}
		}
		s.Handlers = append(s.Handlers, h)
	}
	if faulty && rapid.IntRange(0, 3).Draw(t, "deadlinefault") == 0 {
		s.Handlers = append(s.Handlers, HandlerSpec{Mode: "sleep", FailAt: -1})
		s.DeadlineSteps = rapid.IntRange(1, 12).Draw(t, "deadline")
	}
	nc := rapid.IntRange(0, 6).Draw(t, "ncont")
	for i := 0; i < nc; i++ {
		s.Cont = append(s.Cont, genStoreOp(t, delContKinds))
	}
	return s
}

const (
	selZero = iota
	selTm1
	selT
	selT1
	selTk // T+k (clamped to H+1)
	selHk // H+1-k (clamped to T)
	selH
	selH1
	selH2
	selMax
	selMid  // T + (H-T)/2
	selMid1 // selMid + 1
	selMidK // selMid + k
	selCount
)

func resolveSel(m *storeModel, sel, k int) uint64 {
	T, H := m.T, m.H
	if !m.has {
		T, H = 5, 5
	}
	switch sel {
	case selZero:
		return 0
	case selTm1:
		return T - 1
	case selT:
		return T
	case selT1:
		return T + 1
	case selTk:
		v := T + uint64(k)
		if v > H+1 {
			v = H + 1
		}
		return v
	case selHk:
		if uint64(k) > H+1-T {
			return T
		}
		return H + 1 - uint64(k)
	case selH:
		return H
	case selH1:
		return H + 1
	case selH2:
		return H + 2
	case selMid:
		return T + (H-T)/2
	case selMid1:
		return T + (H-T)/2 + 1
	case selMidK:
		return T + (H-T)/2 + uint64(k)
	default:
		return math.MaxUint64
	}
}

type handlerCall struct {
	Attempt  int    `json:"attempt"`
	Handler  int    `json:"handler"`
	Height   uint64 `json:"height"`
	ByHeight bool   `json:"by_height_ok"`
	ByHash   bool   `json:"by_hash_ok"`
	Failed   bool   `json:"failed,omitempty"`
}

type delObs struct {
	From, To    uint64
	Valid       bool
	Whole       bool
	Err         string
	RetryErr    string
	Calls       []handlerCall
	Removed     [][]uint64 // per attempt: heights that became unreadable
	ModelBefore string
}

// runDel executes a scenario and returns the verdicts of C08 and C14.
func runDel(t *testing.T, s DelScenario) (r08, r14 Result) {
	col08, col14 := evid.For("C08"), evid.For("C14")
	bubble(t, func() {
		e := newStoreEnv(s.Cfg, storeChainLen)
		ctx, cancel := vctx(24 * time.Hour)
		defer cancel()
		if err := e.open(ctx); err != nil {
			if e.rejected != nil {
				col08.Exclude("configuration rejected by constructor")
				col14.Exclude("configuration rejected by constructor")
				r08.label("rejected_config")
				r14.label("rejected_config")
				return
			}
			r08.failf("opening a fresh store failed: %v", err)
			r14.Verdict = r08.Verdict
			return
		}
		defer func() {
			if e.st != nil {
				c2, cn := vctx(time.Hour)
				_ = e.st.Stop(c2)
				cn()
			}
		}()
		if s.Parallel {
			old := store.VerifSetDeleteParallelThreshold(2)
			defer store.VerifSetDeleteParallelThreshold(old)
		}
		fail08 := func(f string, a ...any) { r08.failf(f, a...) }
		fail14 := func(f string, a ...any) { r14.failf(f, a...) }
		doAppend := func(from uint64, n int) bool {
			if n <= 0 || from+uint64(n) > storeChainLen-2 {
				return true
			}
			hs := e.chain.Range(from, from+uint64(n))
			if err := e.st.Append(ctx, hs...); err != nil {
				fail08("setup Append failed: %v", err)
				return false
			}
			e.m.appendBatch(heightsOf(hs))
			return true
		}

		// ---- set-up: any mix of flushed and unflushed headers ----
		if !doAppend(s.Base, s.Len) {
			return
		}
		if s.Orphans > 0 && !doAppend(s.Base+uint64(s.Len)+2, s.Orphans) {
			return
		}
		if s.SyncBefore {
			if err := e.st.Sync(ctx); err != nil {
				fail08("setup Sync failed: %v", err)
				return
			}
		}
		if s.ExtraPending > 0 && !doAppend(e.m.H+1, s.ExtraPending) {
			return
		}
		synctest.Wait()
		pendingBefore := e.m.clone()
		_ = pendingBefore
		if v := e.checkStore("after set-up"); v != "" {
			fail08("%s", v)
			return
		}

		// ---- handlers ----
		var mu sync.Mutex
		obs := &delObs{ModelBefore: e.m.String()}
		attempt := 0
		counts := make([]int, len(s.Handlers))
		faultsOn := true
		var delFrom, delTo uint64
		const sleepStep = 100 * time.Millisecond
		for i, hs := range s.Handlers {
			i, hs := i, hs
			e.st.OnDelete(func(hctx context.Context, height uint64) error {
				c1, cn := context.WithTimeout(context.Background(), time.Second)
				got, err := e.st.GetByHeight(c1, height)
				cn()
				byH := err == nil && got != nil && got.H == height
				byHash := false
				if want := e.chain.At(height); want != nil {
					g2, err2 := e.st.Get(context.Background(), want.Hash())
					byHash = err2 == nil && vh.Equal(g2, want)
				}
				mu.Lock()
				counts[i]++
				misbehave := faultsOn && hs.FailAt >= 0 && delTo > delFrom && height == delFrom+uint64(hs.FailAt)%(delTo-delFrom)
				obs.Calls = append(obs.Calls, handlerCall{Attempt: attempt, Handler: i, Height: height, ByHeight: byH, ByHash: byHash, Failed: misbehave})
				mu.Unlock()
				if hs.Mode == "sleep" && faultsOn {
					time.Sleep(sleepStep)
				}
				if misbehave {
					if hs.Mode == "panic" {
						switch hs.Err { // what the handler panics with
						case "p_int":
							panic(42)
						case "p_struct":
							panic(struct{ H uint64 }{height})
						case "p_error":
							panic(fmt.Errorf("handler %d panics at height %d", i, height))
						case "p_runtime":
							var m map[uint64]int
							m[height] = i // assignment to entry in nil map
						}
						panic(fmt.Sprintf("handler %d panics at height %d", i, height))
					}
					switch hs.Err {
					case "ds_notfound":
						return fmt.Errorf("handler %d: own record of %d: %w", i, height, datastore.ErrNotFound)
					case "hdr_notfound":
						return fmt.Errorf("handler %d: own record of %d: %w", i, height, header.ErrNotFound)
					case "ctx_canceled":
						return context.Canceled
					}
					return fmt.Errorf("handler %d refuses height %d", i, height)
				}
				return nil
			})
		}

		// ---- the deletion ----
		from, to := resolveSel(e.m, s.FromSel, s.K), resolveSel(e.m, s.ToSel, s.K)
		valid, whole := e.m.deleteValid(from, to)
		obs.From, obs.To, obs.Valid, obs.Whole = from, to, valid, whole
		delFrom, delTo = from, to
		// make "no effect" observable: flush first, then snapshot
		if err := e.st.Sync(ctx); err != nil {
			fail08("Sync before deletion failed: %v", err)
			return
		}
		keysBefore := e.mem.Keys()
		readable := func() map[uint64]bool {
			out := map[uint64]bool{}
			for h := range e.m.stored {
				c1, cn := vctx(time.Second)
				got, err := e.st.GetByHeight(c1, h)
				cn()
				if err == nil && got != nil && got.H == h {
					out[h] = true
				}
			}
			return out
		}
		before := readable()
		belowQueued := false
		if s.BelowQueued > 0 && e.m.has && e.m.T > uint64(s.BelowQueued) {
			// older headers arrive (backward sync) and are queued right when the deletion is called: the range,
			// chosen against the tail of a moment ago, is judged against the chain including them
			lo := e.m.T - uint64(s.BelowQueued)
			hs := e.chain.Range(lo, e.m.T)
			if err := e.st.Append(ctx, hs...); err != nil {
				fail08("Append below the tail failed: %v", err)
				return
			}
			e.m.appendBatch(heightsOf(hs))
			for _, h := range hs {
				before[h.H] = true
			}
			valid, whole = e.m.deleteValid(from, to)
			obs.Valid, obs.Whole = valid, whole
			belowQueued = true
			r08.label("older_headers_queued_at_the_call")
		}

		if s.AboveQueued > 0 && e.m.has && e.m.maxStored() == e.m.H && e.m.H+uint64(s.AboveQueued)+uint64(s.Cfg.Batch)+2 < uint64(len(e.chain.Headers)) {
			// newer headers arrive and are queued right when the deletion is called; a deletion up to the head covers them
			oldH := e.m.H
			// keep the flush loop busy first: a filler batch that fills the write batch is written out through one slow
			// datastore write, so that the new headers AND the deletion's own Sync request are both waiting when the
			// flush loop comes back to its select
			filler := e.chain.Range(oldH+1, oldH+1+uint64(s.Cfg.Batch))
			var once sync.Once
			e.mem.Yield = func(p string) {
				if p == "ds:write" {
					once.Do(func() { time.Sleep(time.Millisecond) })
				}
			}
			defer func() { e.mem.Yield = nil }()
			if err := e.st.Append(ctx, filler...); err != nil {
				fail08("Append above the head failed: %v", err)
				return
			}
			e.m.appendBatch(heightsOf(filler))
			for _, h := range filler {
				before[h.H] = true
			}
			synctest.Wait()
			hs := e.chain.Range(e.m.H+1, e.m.H+1+uint64(s.AboveQueued))
			if err := e.st.Append(ctx, hs...); err != nil {
				fail08("Append above the head failed: %v", err)
				return
			}
			e.m.appendBatch(heightsOf(hs))
			for _, h := range hs {
				before[h.H] = true
			}
			if to == oldH+1 {
				to = e.m.H + 1
				obs.To = to
				mu.Lock()
				delTo = to
				mu.Unlock()
			}
			valid, whole = e.m.deleteValid(from, to)
			obs.Valid, obs.Whole = valid, whole
			belowQueued = true // (the key-set clause of a rejected call: the queued headers may be written out meanwhile)
			r08.label("newer_headers_queued_at_the_call")
		}

		dctx, dcancel := ctx, context.CancelFunc(func() {})
		if s.DeadlineSteps > 0 {
			dctx, dcancel = context.WithTimeout(ctx, time.Duration(s.DeadlineSteps)*sleepStep)
		}
		var derr error
		dsFault := false
		func() {
			defer func() {
				if r := recover(); r != nil {
					derr = fmt.Errorf("PANIC escaped DeleteRange: %v", r)
					fail08("DeleteRange panicked: %v", r)
					fail14("DeleteRange panicked (a handler panic must be returned as an error): %v", r)
				}
			}()
			fw0 := e.mem.FailedWrites()
			if s.DsFault > 0 && valid && !whole && !s.Parallel && from == e.m.T {
				e.mem.ArmDeleteFault(s.DsFault)
			}
			derr = e.st.DeleteRange(dctx, from, to)
			e.mem.ArmDeleteFault(0)
			dsFault = e.mem.FailedWrites() > fw0
		}()
		dcancel()
		if derr != nil {
			obs.Err = derr.Error()
		}
		if r08.Verdict != "" {
			return
		}
		after := readable()
		var removed []uint64
		for h := range before {
			if !after[h] {
				removed = append(removed, h)
			}
		}
		sort.Slice(removed, func(i, j int) bool { return removed[i] < removed[j] })
		obs.Removed = append(obs.Removed, removed)
		r08.Obs, r14.Obs = obs, obs

		inRange := func(h uint64) bool { return h >= from && h < to }
		anyHandlerFault := false
		for _, c := range obs.Calls {
			if c.Failed {
				anyHandlerFault = true
			}
		}
		partial := valid && derr != nil

		// labels / non-triviality
		hadPending := !s.SyncBefore || s.ExtraPending > 0
		contHasRestart, contHasAppend := false, false
		for _, c := range s.Cont {
			if c.Op == "restart_new" || c.Op == "restart_stopstart" {
				contHasRestart = true
			}
			if c.Op == "append_next" || c.Op == "append_fill" {
				contHasAppend = true
			}
		}
		kind := "invalid"
		if valid {
			kind = map[bool]string{true: "whole", false: map[bool]string{true: "prefix", false: "suffix"}[from == e.m.T]}[whole]
		}
		for _, r := range []*Result{&r08, &r14} {
			r.label("range=" + kind)
			if partial {
				r.label("failed_part_way")
			}
			if s.Parallel && valid && to-from >= 2 {
				r.label("parallel_path")
			}
			if hadPending && valid {
				r.label("range_over_unflushed_store")
			}
		}
		r08.NonTrivial = valid && (hadPending || (contHasRestart && contHasAppend) || partial)
		failInside := false
		for _, c := range obs.Calls {
			if c.Failed && c.Height > from && c.Height < to-1 {
				failInside = true
			}
		}
		r14.NonTrivial = valid && len(s.Handlers) > 0 && (failInside || whole || hadPending)

		// ---- C08 oracle ----
		switch {
		case !valid:
			if derr == nil {
				fail08("DeleteRange(%d,%d) returned nil for a range that is neither a prefix from Tail, a suffix to Head+1 nor the whole chain; model %v", from, to, e.m)
				break
			}
			if len(removed) > 0 {
				fail08("rejected DeleteRange(%d,%d) made heights %v unreadable", from, to, removed)
				break
			}
			if v := e.checkStore("after rejected DeleteRange"); v != "" {
				fail08("rejected DeleteRange(%d,%d) had an effect: %s", from, to, v)
				break
			}
			if ka := e.mem.Keys(); !belowQueued && fmt.Sprint(ka) != fmt.Sprint(keysBefore) {
				fail08("rejected DeleteRange(%d,%d) changed the datastore key set", from, to)
			}
			if len(obs.Calls) > 0 {
				fail14("handlers were invoked by a rejected DeleteRange(%d,%d)", from, to)
			}
		case derr == nil:
			e.m.deleteRange(from, to)
			if v := e.checkStore(fmt.Sprintf("after DeleteRange(%d,%d)=nil", from, to)); v != "" {
				fail08("%s", v)
				break
			}
			if v := e.checkKeysGone(from, to); v != "" {
				fail08("after DeleteRange(%d,%d)=nil: %s", from, to, v)
			}
		default: // failed part-way
			for h := range before {
				if !inRange(h) && !after[h] {
					fail08("failed DeleteRange(%d,%d) made height %d outside the range unreadable", from, to, h)
				}
			}
			// (after an injected datastore fault the running store's Tail may sit on a half-deleted header until
			// the retry - DESIGN 12, C08-h - so that clause is judged after the retry only)
			if v := e.checkPointersResolve("after failed DeleteRange"); v != "" && !dsFault {
				// a whole-chain deletion that removed every header but failed afterwards leaves an empty store
				allGone := whole
				for h := e.m.T; h <= e.m.H; h++ {
					if after[h] {
						allGone = false
					}
				}
				if !(allGone && e.storeEmpty()) {
					fail08("%s", v)
				}
			}
		}

		// ---- C14 oracle (first attempt) ----
		if valid && r14.Verdict == "" && !dsFault {
			if v := c14Judge(obs, 0, removed, len(s.Handlers), derr, anyHandlerFault, before, after, from, to); v != "" {
				fail14("%s", v)
			}
		}
		if r08.Verdict != "" || r14.Verdict != "" {
			return
		}

		// ---- retry after a part-way failure ----
		if partial {
			faultsOn = false
			attempt = 1
			tail, terr := e.st.Tail(ctx)
			head, herr := e.st.Head(ctx)
			tailSide := from == modelT(obs, e) // deletion started at the tail (prefix or whole)
			if terr == nil && herr == nil && tailSide && tail.H >= to {
				// the store considers the deletion complete: then nothing of the range may be readable
				for h := from; h < to; h++ {
					if after[h] {
						fail08("failed DeleteRange(%d,%d) moved Tail to %d although height %d is still readable: a retry cannot complete the deletion", from, to, tail.H, h)
						return
					}
				}
				e.m.deleteRange(from, to)
			} else if terr == nil && herr == nil && tailSide && tail.H < to {
				before2 := readable()
				rto := to
				if rto > head.H+1 {
					// the parallel path may already have removed the top of the range, Head receded with it
					rto = head.H + 1
				}
				rerr := e.st.DeleteRange(ctx, tail.H, rto)
				if rerr != nil {
					obs.RetryErr = rerr.Error()
					fail08("retrying the tail-side deletion as DeleteRange(%d,%d) failed: %v", tail.H, rto, rerr)
					return
				}
				after2 := readable()
				var removed2 []uint64
				for h := range before2 {
					if !after2[h] {
						removed2 = append(removed2, h)
					}
				}
				sort.Slice(removed2, func(i, j int) bool { return removed2[i] < removed2[j] })
				obs.Removed = append(obs.Removed, removed2)
				// the retry of a tail-side deletion invokes the handlers again for every header whose
				// handler failed (and which therefore had to stay) in the first attempt
				for _, c := range obs.Calls {
					if c.Attempt != 0 || !c.Failed || c.Height >= rto {
						continue
					}
					again := 0
					for _, c2 := range obs.Calls {
						if c2.Attempt == 1 && c2.Height == c.Height {
							again++
						}
					}
					if again != len(s.Handlers) && !dsFault {
						fail14("retry: handler %d failed for height %d in the first attempt; the retried tail-side deletion called %d of %d handlers for it (Tail was moved to %d)", c.Handler, c.Height, again, len(s.Handlers), tail.H)
						break
					}
				}
				e.m.deleteRange(from, to)
				if v := e.checkStore("after retried deletion"); v != "" {
					fail08("%s", v)
					return
				}
				if v := e.checkKeysGone(from, to); v != "" {
					fail08("after retried deletion: %s", v)
					return
				}
				if dsFault {
					r08.label("retry_completed_after_datastore_fault")
				} else if v := c14Judge(obs, 1, removed2, len(s.Handlers), nil, false, before2, after2, tail.H, rto); v != "" {
					fail14("retry: %s", v)
					return
				}
				r08.label("retry_completed")
				r14.label("retry_completed")
			} else {
				// head-side part-way failure (or nothing left): resynchronise the model with what is readable;
				// the statement demands nothing beyond what was checked above.
				_ = head
				col08.Exclude("continuation after a head-side part-way failure (no further demand in the statement)")
				return
			}
		}

		// ---- continuation: nothing deleted comes back ----
		deleted := map[uint64]bool{}
		if valid {
			for h := from; h < to; h++ {
				deleted[h] = true
			}
		}
		for i, op := range s.Cont {
			tag := fmt.Sprintf("cont#%d %s", i, op.Op)
			switch op.Op {
			case "append_next", "append_fill", "append_repeat":
				hs := resolveAppend(e.m, op, s.Base)
				if hs == nil {
					continue
				}
				if err := e.st.Append(ctx, e.chain.Range(hs[0], hs[len(hs)-1]+1)...); err != nil {
					fail08("%s: Append failed: %v", tag, err)
					return
				}
				e.m.appendBatch(hs)
				for _, h := range hs {
					delete(deleted, h) // re-appended by the harness itself
				}
			case "sync":
				if err := e.st.Sync(ctx); err != nil {
					fail08("%s: Sync failed: %v", tag, err)
					return
				}
			case "restart_new", "restart_stopstart":
				c2, cn := vctx(time.Hour)
				err := e.st.Stop(c2)
				cn()
				if err != nil {
					fail08("%s: Stop failed: %v", tag, err)
					return
				}
				if op.Op == "restart_new" {
					e.st = nil
					if err := e.open(ctx); err != nil {
						fail08("%s: reopen failed: %v", tag, err)
						return
					}
				} else if err := startScoped(e.st.Start); err != nil {
					fail08("%s: Start failed: %v", tag, err)
					return
				}
			}
			synctest.Wait()
			if v := e.checkStore(tag); v != "" {
				fail08("%s (deleted range was [%d,%d))", v, from, to)
				return
			}
		}
		if err := e.st.Sync(ctx); err == nil {
			for h := range deleted {
				if v := e.checkKeysGone(h, h+1); v != "" {
					fail08("after the continuation: %s", v)
					return
				}
			}
		}
		// ---- a later deletion on the same Store object still notifies every registered handler ----
		// (registrations belong to the Store object: they survive its deletions - also the whole-store one -
		// and Stop/Start; a Store created anew has none)
		sameObject := true
		for _, op := range s.Cont {
			if op.Op == "restart_new" {
				sameObject = false
			}
		}
		if sameObject && len(s.Handlers) > 0 && r08.Verdict == "" && r14.Verdict == "" && e.m.has && e.m.H > e.m.T {
			faultsOn = false
			attempt = 2
			mu.Lock()
			nBefore := len(obs.Calls)
			mu.Unlock()
			f2, t2 := e.m.T, e.m.T+1
			delFrom, delTo = f2, t2
			if err := e.st.DeleteRange(ctx, f2, t2); err != nil {
				fail08("later DeleteRange(%d,%d) failed: %v", f2, t2, err)
				return
			}
			e.m.deleteRange(f2, t2)
			mu.Lock()
			calls := append([]handlerCall(nil), obs.Calls[nBefore:]...)
			mu.Unlock()
			per := make([]int, len(s.Handlers))
			for _, c := range calls {
				if c.Height == f2 {
					per[c.Handler]++
				}
			}
			for hi, n := range per {
				if n != 1 {
					fail14("a later DeleteRange(%d,%d) on the same Store called handler %d %d times for the removed height %d (handlers registered before the first deletion)", f2, t2, hi, n, f2)
					return
				}
			}
			r14.label("later_deletion_checked")
		}
	})
	return r08, r14
}

func modelT(o *delObs, e *storeEnv) uint64 {
	// the model is only updated on success, so e.m.T is still the tail before the failed deletion
	return e.m.T
}

// checkKeysGone verifies that neither hash nor height keys of [from,to) are in the datastore
// and that nothing of it is readable.
func (e *storeEnv) checkKeysGone(from, to uint64) string {
	byHash, byIndex, problem := rawScan(e.mem, e.chain)
	if problem != "" {
		return problem
	}
	for h := from; h < to && h < storeChainLen; h++ {
		if e.m.stored[h] {
			continue
		}
		if byHash[h] {
			return fmt.Sprintf("header %d is still in the datastore (hash key)", h)
		}
		if byIndex[h] {
			return fmt.Sprintf("height index of %d is still in the datastore", h)
		}
	}
	return ""
}

func (e *storeEnv) storeEmpty() bool {
	_, herr := e.st.Head(context.Background())
	_, terr := e.st.Tail(context.Background())
	return errors.Is(herr, header.ErrEmptyStore) && errors.Is(terr, header.ErrEmptyStore)
}

// checkPointersResolve: Head and Tail resolve to stored headers with Tail <= Head.
func (e *storeEnv) checkPointersResolve(tag string) string {
	ctx, cancel := vctx(time.Hour)
	defer cancel()
	head, herr := e.st.Head(ctx)
	tail, terr := e.st.Tail(ctx)
	if herr != nil || terr != nil {
		return fmt.Sprintf("%s: Head err=%v, Tail err=%v", tag, herr, terr)
	}
	if tail.H > head.H {
		return fmt.Sprintf("%s: Tail %d > Head %d", tag, tail.H, head.H)
	}
	for _, p := range []*vh.Header{head, tail} {
		g, err := e.st.Get(ctx, p.Hash())
		if err != nil || !vh.Equal(g, p) {
			return fmt.Sprintf("%s: pointer %d does not resolve to a stored header: %v", tag, p.H, err)
		}
		c1, cn := vctx(time.Second)
		g, err = e.st.GetByHeight(c1, p.H)
		cn()
		if err != nil || !vh.Equal(g, p) {
			return fmt.Sprintf("%s: pointer %d is not retrievable by height: %v", tag, p.H, err)
		}
	}
	return ""
}

// c14Judge checks the handler log of one attempt against what actually disappeared.
func c14Judge(o *delObs, attempt int, removed []uint64, nHandlers int, derr error, handlerFault bool,
	before, after map[uint64]bool, from, to uint64) string {
	type key struct {
		h   int
		hgt uint64
	}
	calls := map[key]int{}
	for _, c := range o.Calls {
		if c.Attempt != attempt {
			continue
		}
		calls[key{c.Handler, c.Height}]++
		if c.Height < from || c.Height >= to {
			return fmt.Sprintf("handler %d called for height %d outside the deleted range [%d,%d)", c.Handler, c.Height, from, to)
		}
		if !c.ByHeight {
			return fmt.Sprintf("handler %d called for height %d while GetByHeight(%d) no longer returns it", c.Handler, c.Height, c.Height)
		}
		if !c.ByHash {
			return fmt.Sprintf("handler %d called for height %d while Get(hash) no longer returns it", c.Handler, c.Height)
		}
		if c.Failed && !after[c.Height] {
			return fmt.Sprintf("handler %d failed for height %d but the header was removed anyway", c.Handler, c.Height)
		}
	}
	for k, n := range calls {
		if n > 1 {
			return fmt.Sprintf("handler %d called %d times for height %d in one DeleteRange", k.h, n, k.hgt)
		}
	}
	for _, h := range removed {
		for i := 0; i < nHandlers; i++ {
			if calls[key{i, h}] != 1 {
				return fmt.Sprintf("height %d became unreadable but handler %d was called %d times for it", h, i, calls[key{i, h}])
			}
		}
	}
	if handlerFault {
		if derr == nil {
			return "a handler failed/panicked but DeleteRange returned nil"
		}
		// tail side: everything above the failure point stays readable (sequential path)
	}
	if derr == nil {
		// completeness: every stored header of the range is gone and thus had its handlers called
		for h := range before {
			if h >= from && h < to && after[h] {
				return fmt.Sprintf("DeleteRange returned nil but height %d of the range is still readable", h)
			}
		}
	}
	var ve interface{ Error() string }
	_ = errors.As
	_ = ve
	return ""
}

func genC08(t *rapid.T) DelScenario {
	s := genDel(t, rapid.IntRange(0, 2).Draw(t, "faulty") == 0)
	if rapid.IntRange(0, 4).Draw(t, "dsfault") == 0 {
		s.DsFault = rapid.IntRange(1, 9).Draw(t, "dsfaultn")
	}
	return s
}
func genC14(t *rapid.T) DelScenario {
	s := genDel(t, rapid.IntRange(0, 2).Draw(t, "faulty") != 0)
	if len(s.Handlers) == 0 {
		s.Handlers = []HandlerSpec{{Mode: "ok", FailAt: -1}}
	}
	return s
}

func runC08(t *testing.T, s DelScenario) Result { r, _ := runDel(t, s); return r }
func runC14(t *testing.T, s DelScenario) Result { _, r := runDel(t, s); return r }

func TestC08(t *testing.T)       { check(t, "C08", genC08, runC08) }
func TestC08Replay(t *testing.T) { replay(t, "C08", runC08) }
func TestC14(t *testing.T)       { check(t, "C14", genC14, runC14) }
func TestC14Replay(t *testing.T) { replay(t, "C14", runC14) }
