package props

import (
	"context"
	"errors"
	"fmt"
	"sort"
	"testing"
	"time"

	header "github.com/celestiaorg/go-header"
	"pgregory.net/rapid"

	"verif/harness/vh"
)

// C09 — Exchange.Head returns the quorum/highest head and honours the trusted head.

type C09Peer struct {
	Kind string `json:"kind"` // header | not_found | garbage_body | bad_validate | wrong_chain | hang | reset | empty | unknown_status
	Pool int    `json:"pool"` // which pool header it reports (kind header / mutated kinds)
	Rank int    `json:"rank"` // arrival rank; the answer arrives after 10*(rank+1) ms
}

type C09Scenario struct {
	// Metrics: the Exchange is built WithMetrics (a configuration that must not change any result)
	Metrics bool `json:"metrics,omitempty"`
	// Restart: the Exchange is stopped and started again before it is used
	Restart bool `json:"restart,omitempty"`
	// NoChainID: the Exchange is built without WithChainID (answers are not filtered by chain id; the peers then all
	// serve the right chain)
	NoChainID bool      `json:"no_chain_id,omitempty"`
	Trusted   bool      `json:"trusted_head"` // WithTrustedHead mode
	Peers     []C09Peer `json:"peers"`
	Deadline  bool      `json:"deadline"`            // caller ctx with a 3s deadline (else 60s)
	SoftType  bool      `json:"soft_type,omitempty"` // the header type reports every rejection as soft
}

// pool of reported headers relative to the trusted header at height 20 (span 10):
//
//	0: canonical 30 (within span)      1: canonical 30 forked twin (same height, other hash)
//	2: canonical 21 (adjacent)         3: canonical 45 (beyond span: soft)
//	4: canonical 25                    5: canonical 12 (below trusted: hard in trusted mode)
//	6: forged 21 (adjacent, hard)      7: forged 33 (non-adjacent: soft)
const c09PoolSize = 8

func c09Pool(chain *vh.Chain) []*vh.Header {
	return []*vh.Header{
		chain.At(30), vh.Variant(chain.At(30), vh.AdvForked, 3), chain.At(21), chain.At(45),
		chain.At(25), chain.At(12), vh.Variant(chain.At(21), vh.AdvForged, 1), vh.Variant(chain.At(33), vh.AdvForged, 2),
	}
}

var c09Kinds = []string{"header", "header", "header", "header", "header", "header_case", bhNotFound, bhGarbage, bhBadValidate, bhWrongChain, bhNoChain, bhHang, bhReset, bhEmpty, bhUnknownCode, bhUnknownBody}

func genC09(t *rapid.T) C09Scenario {
	s := C09Scenario{Trusted: rapid.Bool().Draw(t, "trusted"), Deadline: rapid.Bool().Draw(t, "deadline"),
		SoftType: rapid.IntRange(0, 3).Draw(t, "softtype") == 0}
	n := rapid.IntRange(1, 6).Draw(t, "npeers")
	ranks := rapid.Permutation(seq(n)).Draw(t, "ranks")
	// bias towards agreement: draw a favourite pool entry
	fav := rapid.IntRange(0, c09PoolSize-1).Draw(t, "fav")
	for i := 0; i < n; i++ {
		p := C09Peer{Kind: rapid.SampledFrom(c09Kinds).Draw(t, "kind"), Rank: ranks[i]}
		if rapid.IntRange(0, 2).Draw(t, "usefav") > 0 {
			p.Pool = fav
		} else {
			p.Pool = rapid.IntRange(0, c09PoolSize-1).Draw(t, "pool")
		}
		s.Peers = append(s.Peers, p)
	}
	s.Metrics = rapid.IntRange(0, 3).Draw(t, "metrics") == 0
	s.Restart = rapid.IntRange(0, 3).Draw(t, "restart") == 0
	if rapid.IntRange(0, 4).Draw(t, "nochainid") == 0 {
		s.NoChainID = true
		for i := range s.Peers {
			switch s.Peers[i].Kind {
			case "header_case", bhWrongChain, bhNoChain:
				s.Peers[i].Kind = "header"
			}
		}
	}
	return s
}

func seq(n int) []int {
	out := make([]int, n)
	for i := range out {
		out[i] = i
	}
	return out
}

func c09Quorum(n int) int {
	if n <= 2 {
		return n
	}
	return (2*n + 2) / 3
}

func runC09(t *testing.T, s C09Scenario) (res Result) {
	exchangeMetrics, exchangeRestart, exchangeNoChainID = s.Metrics, s.Restart, s.NoChainID
	defer func() { exchangeMetrics, exchangeRestart, exchangeNoChainID = false, false, false }()
	bubble(t, func() {
		spec := vh.ChainSpec{ChainID: "c09", N: 60, StartMs: -1_000_000, Spans: []uint64{10}}
		if s.SoftType {
			// a header type that reports every rejection as soft, also for an adjacent header: such a head must be
			// handed over with its soft error like any other soft-failing one
			spec.Flags = vh.FlagSoftType
		}
		chain := spec.Build()
		pool := c09Pool(chain)
		trustedHdr := chain.At(20)
		scripts := make([][]Behaviour, len(s.Peers))
		for i, p := range s.Peers {
			kind := p.Kind
			if kind == "header" || kind == "header_case" {
				kind = bhCorrect
			}
			scripts[i] = []Behaviour{{Kind: kind, DelayMs: 10 * (p.Rank + 1)}}
		}
		e, err := newExchangeEnv(chain, scripts, 64, time.Second)
		if err != nil {
			res.failf("HARNESS: %v", err)
			return
		}
		defer e.close()
		sent := make([]*vh.Header, len(s.Peers))
		for i, p := range s.Peers {
			sent[i] = pool[p.Pool]
			if p.Kind == "header_case" {
				// same header under a chain id that differs only in letter case: the Exchange's own chain-id
				// check is case-insensitive, verification against a trusted head is not
				c := sent[i].Clone()
				c.Chain = swapCase(c.Chain)
				sent[i] = c.Seal()
			}
			e.peers[i].headOverride = sent[i]
		}
		dl := 60 * time.Second
		if s.Deadline {
			dl = 3 * time.Second
		}
		ctx, cancel := vctx(dl)
		defer cancel()
		t0 := time.Now()
		var got *vh.Header
		var gerr error
		if s.Trusted {
			got, gerr = e.ex.Head(ctx, header.WithTrustedHead[*vh.Header](trustedHdr))
		} else {
			got, gerr = e.ex.Head(ctx)
		}
		elapsed := time.Since(t0)

		// ---- model over the peers that were actually asked, in arrival order ----
		type answer struct {
			at    time.Duration
			h     *vh.Header // usable header (nil = unusable)
			soft  bool
			never bool
		}
		var answers []answer
		for i, p := range s.Peers {
			if len(e.peers[i].requests()) == 0 {
				continue // not asked (cap on untrusted head requests)
			}
			a := answer{at: time.Duration(10*(p.Rank+1)) * time.Millisecond}
			switch p.Kind {
			case "header", "header_case":
				h := sent[i]
				if s.Trusted {
					switch ok, soft := modelVerify(trustedHdr, h); {
					case ok:
						a.h = h
					case soft:
						a.h, a.soft = h, true
					}
				} else {
					a.h = h
				}
			case bhHang:
				a.never = true
			}
			answers = append(answers, a)
		}
		n := len(answers)
		sort.Slice(answers, func(i, j int) bool { return answers[i].at < answers[j].at })
		q := c09Quorum(n)
		counts := map[string]int{}
		var quorumHdr *vh.Header
		var quorumAt time.Duration
		quorumSoft := false
		sawNever := false
		distinct := map[string]bool{}
		anySoft := false
		for _, a := range answers {
			if a.never {
				sawNever = true
				continue
			}
			if a.h == nil {
				continue
			}
			k := fmtHash(a.h.Hash())
			distinct[k] = true
			anySoft = anySoft || a.soft
			counts[k]++
			if quorumHdr == nil && counts[k] >= q && !sawNever {
				quorumHdr, quorumAt, quorumSoft = a.h, a.at, a.soft
			}
			if quorumHdr == nil && counts[k] >= q && sawNever {
				// a quorum completed by answers arriving after a never-answering peer's slot is still a quorum
				quorumHdr, quorumAt, quorumSoft = a.h, a.at, a.soft
			}
		}
		var usable []*vh.Header
		var maxH uint64
		for _, a := range answers {
			if a.h != nil && !a.never {
				usable = append(usable, a.h)
				if a.h.H > maxH {
					maxH = a.h.H
				}
			}
		}
		res.NonTrivial = len(distinct) >= 2 || anySoft || (quorumHdr != nil && n > 0 && quorumAt < answers[n-1].at)
		res.SigKey = s
		res.label(fmt.Sprintf("asked=%d", n), fmt.Sprintf("mode_trusted=%v", s.Trusted))
		if quorumHdr != nil {
			res.label("quorum")
		} else if len(usable) > 0 {
			res.label("fallback_highest")
		} else {
			res.label("nobody")
		}
		res.Obs = map[string]any{"got": got.String(), "err": fmt.Sprint(gerr), "elapsed": elapsed.String(), "asked": n, "quorum": q}

		if n == 0 {
			res.failf("Head returned (%v, %v) after %v without asking any of the %d connected trusted peers", got, gerr, elapsed, len(s.Peers))
			return
		}
		isSoftErr := func(err error) bool {
			var ve *header.VerifyError
			return errors.As(err, &ve) && ve.SoftFailure
		}
		checkPair := func(h *vh.Header, soft bool) bool {
			// the error that must accompany h
			if soft {
				if !isSoftErr(gerr) {
					res.failf("header %v soft-fails verification against the trusted head but came with error %v instead of a SoftFailure *VerifyError", h, gerr)
					return false
				}
				return true
			}
			if gerr != nil {
				res.failf("header %v came with error %v although it needs none", h, gerr)
				return false
			}
			return true
		}
		// generic safety in trusted-head mode
		if s.Trusted && got != nil {
			ok, soft := modelVerify(trustedHdr, got)
			if gerr == nil && !ok {
				res.failf("nil error but the returned header %v fails verification against the trusted head (soft=%v)", got, soft)
				return
			}
			if !ok && !soft {
				res.failf("returned header %v hard-fails verification against the trusted head", got)
				return
			}
		}
		switch {
		case quorumHdr != nil:
			if got == nil && sawNever && (errors.Is(gerr, context.DeadlineExceeded)) && quorumAt >= dl {
				return
			}
			if !vh.Equal(got, quorumHdr) {
				res.failf("a quorum of %d/%d peers reported %v, Head returned (%v, %v)", q, n, quorumHdr, got, gerr)
				return
			}
			if !checkPair(got, quorumSoft) {
				return
			}
			if elapsed > quorumAt+100*time.Millisecond {
				res.failf("quorum was complete after %v but Head returned after %v", quorumAt, elapsed)
				return
			}
		case sawNever:
			// no quorum and a peer that never answers: the call races its context with the fallback
			if gerr != nil && got == nil && (errors.Is(gerr, context.DeadlineExceeded) || errors.Is(gerr, context.Canceled)) {
				return
			}
			fallthrough
		default:
			if len(usable) == 0 {
				if got != nil || !errors.Is(gerr, header.ErrNotFound) {
					if sawNever && got == nil && gerr != nil {
						return
					}
					res.failf("nobody supplied a usable header, Head returned (%v, %v), want zero header and ErrNotFound", got, gerr)
				}
				return
			}
			if got == nil || got.H != maxH {
				res.failf("no quorum; the highest usable header reported has height %d, Head returned (%v, %v)", maxH, got, gerr)
				return
			}
			found := false
			for _, a := range answers {
				if a.h != nil && vh.Equal(a.h, got) {
					found = true
					if !checkPair(got, a.soft) {
						return
					}
					break
				}
			}
			if !found {
				res.failf("Head returned %v which no asked peer reported", got)
			}
		}
	})
	return res
}

func TestC09(t *testing.T)       { check(t, "C09", genC09, runC09) }
func TestC09Replay(t *testing.T) { replay(t, "C09", runC09) }
