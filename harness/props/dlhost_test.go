package props

import (
	"context"
	"sync"
	"time"

	"github.com/libp2p/go-libp2p/core/host"
	"github.com/libp2p/go-libp2p/core/network"
	"github.com/libp2p/go-libp2p/core/peer"
	"github.com/libp2p/go-libp2p/core/protocol"
)

// mocknet streams ignore deadlines (SetDeadline is a no-op there), real libp2p streams do not.
// dlHost wraps a mocknet host so that a stream whose deadline passes is reset, which makes
// blocked reads and writes on it return an error like they do on a real transport.

type dlHost struct{ host.Host }

func withDeadlines(h host.Host) host.Host { return &dlHost{Host: h} }

func (h *dlHost) NewStream(ctx context.Context, p peer.ID, pids ...protocol.ID) (network.Stream, error) {
	s, err := h.Host.NewStream(ctx, p, pids...)
	if err != nil {
		return nil, err
	}
	return &dlStream{Stream: s}, nil
}

func (h *dlHost) SetStreamHandler(pid protocol.ID, handler network.StreamHandler) {
	h.Host.SetStreamHandler(pid, func(s network.Stream) { handler(&dlStream{Stream: s}) })
}

type dlStream struct {
	network.Stream
	mu               sync.Mutex
	rd, wd           time.Time // read / write deadlines (zero = none)
	rTimer, wTimer   *time.Timer
	reading, writing int // calls in progress
	done             bool
}

// A deadline only concerns reads (writes) that are in progress when it passes or that start after it: a
// server that has finished reading its request is not affected by its read deadline any more.
func (s *dlStream) armRead(t time.Time) {
	s.mu.Lock()
	defer s.mu.Unlock()
	if s.rTimer != nil {
		s.rTimer.Stop()
		s.rTimer = nil
	}
	s.rd = t
	if t.IsZero() || s.done {
		return
	}
	s.rTimer = time.AfterFunc(max(time.Until(t), 0), func() {
		s.mu.Lock()
		blocked := s.reading > 0 && !s.done
		s.mu.Unlock()
		if blocked {
			_ = s.Stream.Reset()
		}
	})
}

func (s *dlStream) armWrite(t time.Time) {
	s.mu.Lock()
	defer s.mu.Unlock()
	if s.wTimer != nil {
		s.wTimer.Stop()
		s.wTimer = nil
	}
	s.wd = t
	if t.IsZero() || s.done {
		return
	}
	s.wTimer = time.AfterFunc(max(time.Until(t), 0), func() {
		s.mu.Lock()
		blocked := s.writing > 0 && !s.done
		s.mu.Unlock()
		if blocked {
			_ = s.Stream.Reset()
		}
	})
}

func (s *dlStream) Read(p []byte) (int, error) {
	s.mu.Lock()
	if !s.rd.IsZero() && !time.Now().Before(s.rd) {
		s.mu.Unlock()
		_ = s.Stream.Reset()
		return 0, network.ErrReset
	}
	s.reading++
	s.mu.Unlock()
	n, err := s.Stream.Read(p)
	s.mu.Lock()
	s.reading--
	s.mu.Unlock()
	return n, err
}

func (s *dlStream) Write(p []byte) (int, error) {
	s.mu.Lock()
	if !s.wd.IsZero() && !time.Now().Before(s.wd) {
		s.mu.Unlock()
		_ = s.Stream.Reset()
		return 0, network.ErrReset
	}
	s.writing++
	s.mu.Unlock()
	n, err := s.Stream.Write(p)
	s.mu.Lock()
	s.writing--
	s.mu.Unlock()
	return n, err
}

func (s *dlStream) stop() {
	s.mu.Lock()
	s.done = true
	if s.rTimer != nil {
		s.rTimer.Stop()
	}
	if s.wTimer != nil {
		s.wTimer.Stop()
	}
	s.mu.Unlock()
}

func (s *dlStream) SetDeadline(t time.Time) error      { s.armRead(t); s.armWrite(t); return nil }
func (s *dlStream) SetReadDeadline(t time.Time) error  { s.armRead(t); return nil }
func (s *dlStream) SetWriteDeadline(t time.Time) error { s.armWrite(t); return nil }
func (s *dlStream) Close() error                       { s.stop(); return s.Stream.Close() }
func (s *dlStream) Reset() error                       { s.stop(); return s.Stream.Reset() }

// breakHost makes the first stream it serves fail after n successful writes (response frames):
// an honest peer behind a transport that breaks in the middle of an answer.
type breakHost struct {
	host.Host
	n    int
	used sync.Mutex
	done bool
}

func (h *breakHost) SetStreamHandler(pid protocol.ID, handler network.StreamHandler) {
	h.Host.SetStreamHandler(pid, func(s network.Stream) {
		h.used.Lock()
		first := !h.done
		h.done = true
		h.used.Unlock()
		if first {
			handler(&breakStream{Stream: s, left: h.n})
			return
		}
		handler(s)
	})
}

type breakStream struct {
	network.Stream
	mu   sync.Mutex
	left int
}

func (s *breakStream) Write(p []byte) (int, error) {
	s.mu.Lock()
	if s.left <= 0 {
		s.mu.Unlock()
		_ = s.Stream.Reset()
		return 0, network.ErrReset
	}
	s.left--
	s.mu.Unlock()
	return s.Stream.Write(p)
}
