package props

import (
	"context"
	"sync"
	"time"

	"github.com/libp2p/go-libp2p/core/host"
	"github.com/libp2p/go-libp2p/core/network"
	"github.com/libp2p/go-libp2p/core/peer"
	"github.com/libp2p/go-libp2p/core/protocol"
)

// mocknet streams ignore deadlines (SetDeadline is a no-op there), real libp2p streams do not.
// dlHost wraps a mocknet host so that a stream whose deadline passes is reset, which makes
// blocked reads and writes on it return an error like they do on a real transport.

type dlHost struct{ host.Host }

func withDeadlines(h host.Host) host.Host { return &dlHost{Host: h} }

func (h *dlHost) NewStream(ctx context.Context, p peer.ID, pids ...protocol.ID) (network.Stream, error) {
	s, err := h.Host.NewStream(ctx, p, pids...)
	if err != nil {
		return nil, err
	}
	return &dlStream{Stream: s}, nil
}

func (h *dlHost) SetStreamHandler(pid protocol.ID, handler network.StreamHandler) {
	h.Host.SetStreamHandler(pid, func(s network.Stream) { handler(&dlStream{Stream: s}) })
}

type dlStream struct {
	network.Stream
	mu     sync.Mutex
	timers []*time.Timer
	done   bool
}

func (s *dlStream) arm(t time.Time) {
	s.mu.Lock()
	defer s.mu.Unlock()
	for _, tm := range s.timers {
		tm.Stop()
	}
	s.timers = nil
	if t.IsZero() || s.done {
		return
	}
	d := time.Until(t)
	if d < 0 {
		d = 0
	}
	s.timers = append(s.timers, time.AfterFunc(d, func() { _ = s.Stream.Reset() }))
}

func (s *dlStream) stop() {
	s.mu.Lock()
	s.done = true
	for _, tm := range s.timers {
		tm.Stop()
	}
	s.timers = nil
	s.mu.Unlock()
}

func (s *dlStream) SetDeadline(t time.Time) error      { s.arm(t); return nil }
func (s *dlStream) SetReadDeadline(t time.Time) error  { s.arm(t); return nil }
func (s *dlStream) SetWriteDeadline(t time.Time) error { s.arm(t); return nil }
func (s *dlStream) Close() error                       { s.stop(); return s.Stream.Close() }
func (s *dlStream) Reset() error                       { s.stop(); return s.Stream.Reset() }

// breakHost makes the first stream it serves fail after n successful writes (response frames):
// an honest peer behind a transport that breaks in the middle of an answer.
type breakHost struct {
	host.Host
	n    int
	used sync.Mutex
	done bool
}

func (h *breakHost) SetStreamHandler(pid protocol.ID, handler network.StreamHandler) {
	h.Host.SetStreamHandler(pid, func(s network.Stream) {
		h.used.Lock()
		first := !h.done
		h.done = true
		h.used.Unlock()
		if first {
			handler(&breakStream{Stream: s, left: h.n})
			return
		}
		handler(s)
	})
}

type breakStream struct {
	network.Stream
	mu   sync.Mutex
	left int
}

func (s *breakStream) Write(p []byte) (int, error) {
	s.mu.Lock()
	if s.left <= 0 {
		s.mu.Unlock()
		_ = s.Stream.Reset()
		return 0, network.ErrReset
	}
	s.left--
	s.mu.Unlock()
	return s.Stream.Write(p)
}
