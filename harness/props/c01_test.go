package props

import (
	"errors"
	"fmt"
	"math"
	"testing"
	"time"

	header "github.com/celestiaorg/go-header"
	"pgregory.net/rapid"

	"verif/harness/evid"
	"verif/harness/vh"
)

// C01 — Verify accepts only headers passing every mandatory and type-level check.

// C01Scenario is a pair (trusted, untrusted) described by feature classes plus concrete
// magnitudes inside each class, and a scripted shape for the type-level Verify result.
type C01Scenario struct {
	TNil, UNil bool
	ChainRel   int    // 0 equal, 1 different, 2 case-differs, 3 both empty, 4 one empty
	TH         uint64 // trusted height
	UHRel      int    // 0 below, 1 equal, 2 +1, 3 +2, 4 far above, 5 "wrap" (+1 computed with overflow)
	UHMag      uint64 // magnitude used by below / far above
	NowRel     int    // untrusted time vs now: 0 past, 1 drift-1ns, 2 =drift, 3 drift+1ns, 4 far future
	NowMagMs   int64
	TTRel      int // untrusted time vs trusted: 0 u 1ns before t, 1 equal, 2 u 1ns after t, 3 u far after t, 4 u far before t
	TTMagMs    int64
	TypeRes    int // 0 nil, 1 plain, 2 bare hard, 3 bare soft, 4 wrapped hard, 5 wrapped soft, 6 join(plain, hard VE), 7 join(plain, soft VE)
}

const (
	c01ChainClasses = 5
	c01UHClasses    = 6
	c01NowClasses   = 5
	c01TTClasses    = 5
	c01TypeClasses  = 8
)

var c01THs = []uint64{1, 7, 1 << 63, math.MaxUint64 - 1, math.MaxUint64, 0}

func genC01(t *rapid.T) C01Scenario {
	s := C01Scenario{
		TNil:     rapid.IntRange(0, 19).Draw(t, "tnil") == 0,
		UNil:     rapid.IntRange(0, 19).Draw(t, "unil") == 0,
		ChainRel: rapid.IntRange(0, c01ChainClasses-1).Draw(t, "chain"),
		UHRel:    rapid.IntRange(0, c01UHClasses-1).Draw(t, "uhrel"),
		UHMag:    rapid.Uint64Range(1, 1<<40).Draw(t, "uhmag"),
		NowRel:   rapid.IntRange(0, c01NowClasses-1).Draw(t, "nowrel"),
		NowMagMs: rapid.Int64Range(0, 1_000_000_000).Draw(t, "nowmag"),
		TTRel:    rapid.IntRange(0, c01TTClasses-1).Draw(t, "ttrel"),
		TTMagMs:  rapid.Int64Range(1, 1_000_000_000).Draw(t, "ttmag"),
		TypeRes:  rapid.IntRange(0, c01TypeClasses-1).Draw(t, "typeres"),
	}
	if rapid.Bool().Draw(t, "edgeH") {
		s.TH = rapid.SampledFrom(c01THs).Draw(t, "th")
	} else {
		s.TH = rapid.Uint64().Draw(t, "thAny")
	}
	// bias towards the "everything mandatory passes" region, where the type-level shapes matter
	if rapid.IntRange(0, 2).Draw(t, "bias") == 0 {
		s.TNil, s.UNil, s.ChainRel = false, false, 0
		s.UHRel = rapid.SampledFrom([]int{2, 3, 4}).Draw(t, "uhrelOk")
		s.NowRel = rapid.SampledFrom([]int{0, 1, 2}).Draw(t, "nowrelOk")
		s.TTRel = rapid.SampledFrom([]int{1, 2, 3}).Draw(t, "ttrelOk")
	}
	return s
}

var errC01Leaf = errors.New("c01 type-level leaf error")
var errC01Other = errors.New("c01 unrelated joined error")

func c01TypeResult(kind int) error {
	switch kind {
	case 0:
		return nil
	case 1:
		return errC01Leaf
	case 2:
		return &header.VerifyError{Reason: errC01Leaf}
	case 3:
		return &header.VerifyError{Reason: errC01Leaf, SoftFailure: true}
	case 4:
		return fmt.Errorf("ctx: %w", &header.VerifyError{Reason: errC01Leaf})
	case 5:
		return fmt.Errorf("ctx: %w", &header.VerifyError{Reason: errC01Leaf, SoftFailure: true})
	case 6:
		return errors.Join(errC01Other, &header.VerifyError{Reason: errC01Leaf})
	default:
		return errors.Join(errC01Other, &header.VerifyError{Reason: errC01Leaf, SoftFailure: true})
	}
}

func c01TypeSoft(kind int) bool { return kind == 3 || kind == 5 || kind == 7 }

// c01Build materialises the pair. now is the (frozen) bubble clock.
func c01Build(s C01Scenario, now time.Time, drift time.Duration) (tr, un *vh.Header) {
	tChain, uChain := "chain-A", "chain-A"
	switch s.ChainRel {
	case 1:
		uChain = "chain-B"
	case 2:
		uChain = "CHAIN-a"
	case 3:
		tChain, uChain = "", ""
	case 4:
		uChain = ""
	}
	var uH uint64
	switch s.UHRel {
	case 0:
		uH = s.TH - min(s.UHMag, s.TH) // may equal TH when TH==0; model decides from the values
		if s.TH > 0 && uH == s.TH {
			uH = s.TH - 1
		}
	case 1:
		uH = s.TH
	case 2, 5:
		uH = s.TH + 1 // wraps to 0 when TH == MaxUint64
	case 3:
		uH = s.TH + 2
	case 4:
		uH = s.TH + 2 + s.UHMag
	}
	var uT time.Time
	switch s.NowRel {
	case 0:
		uT = now.Add(-time.Duration(s.NowMagMs) * time.Millisecond)
	case 1:
		uT = now.Add(drift - 1)
	case 2:
		uT = now.Add(drift)
	case 3:
		uT = now.Add(drift + 1)
	case 4:
		uT = now.Add(drift + time.Duration(s.NowMagMs+1)*time.Millisecond)
	}
	var tT time.Time
	switch s.TTRel {
	case 0:
		tT = uT.Add(1)
	case 1:
		tT = uT
	case 2:
		tT = uT.Add(-1)
	case 3:
		tT = uT.Add(-time.Duration(s.TTMagMs) * time.Millisecond)
	case 4:
		tT = uT.Add(time.Duration(s.TTMagMs) * time.Millisecond)
	}
	if !s.TNil {
		tr = (&vh.Header{Chain: tChain, H: s.TH, T: tT.UnixNano(), Prev: []byte("p"), Span: 1}).Seal()
		res := c01TypeResult(s.TypeRes)
		tr.VerifyFn = func(*vh.Header) error {
			// return a fresh object every time: Verify mutates the VerifyError it finds
			if res == nil {
				return nil
			}
			return c01TypeResult(s.TypeRes)
		}
	}
	if !s.UNil {
		un = (&vh.Header{Chain: uChain, H: uH, T: uT.UnixNano(), Prev: []byte("q"), Span: 1}).Seal()
	}
	return tr, un
}

// c01Model is the reference model of the C01 statement: the set of failing mandatory
// sentinels, then the type-level expectation.
func c01Model(tr, un *vh.Header, now time.Time, drift time.Duration) (failing []error) {
	if tr == nil || un == nil {
		// with a zero header nothing else is defined
		return []error{header.ErrZeroHeader}
	}
	if un.Chain != tr.Chain {
		failing = append(failing, header.ErrWrongChainID)
	}
	if !(un.H > tr.H) {
		failing = append(failing, header.ErrKnownHeader)
	}
	if un.Time().Before(tr.Time()) {
		failing = append(failing, header.ErrUnorderedTime)
	}
	if un.Time().After(now.Add(drift)) {
		failing = append(failing, header.ErrFromFuture)
	}
	return failing
}

func runC01(t *testing.T, s C01Scenario) (res Result) {
	bubble(t, func() {
		now := time.Now()
		drift := header.VerifClockDrift()
		tr, un := c01Build(s, now, drift)
		failing := c01Model(tr, un, now, drift)

		// Verify keeps no state between calls: every case first makes one call of a header type that verifies an
		// embedded header through header.Verify itself and hands the library's own rejection (of a zero header) back,
		// for a non-adjacent pair - so the outer call marks that rejection as soft. Nothing of that may stick.
		{
			inner := (&vh.Header{Chain: "chain-P", H: 3, T: now.Add(-time.Hour).UnixNano(), Prev: []byte("i"), Span: 1}).Seal()
			pt := (&vh.Header{Chain: "chain-P", H: 10, T: now.Add(-time.Minute).UnixNano(), Prev: []byte("p"), Span: 1}).Seal()
			pu := (&vh.Header{Chain: "chain-P", H: 20, T: now.Add(-time.Second).UnixNano(), Prev: []byte("q"), Span: 1}).Seal()
			pt.VerifyFn = func(*vh.Header) error { return header.Verify(inner, nil) }
			perr := header.Verify(pt, pu)
			var pve *header.VerifyError
			if perr == nil || !errors.As(perr, &pve) || !errors.Is(perr, header.ErrZeroHeader) || !pve.SoftFailure {
				res.failf("prelude: a non-adjacent pair whose type-level Verify returns the rejection of an embedded zero header came back as %v (want a soft *VerifyError wrapping ErrZeroHeader)", perr)
				return
			}
		}

		// ... and the verdict is about the pair, not about the untrusted header alone: the same untrusted header is
		// first verified from a twin of the trusted header whose type-level Verify accepts it
		if tr != nil && un != nil {
			twin := *tr
			twin.VerifyFn = func(*vh.Header) error { return nil }
			func() {
				defer func() { _ = recover() }()
				_ = header.Verify(&twin, un)
			}()
		}

		var err error
		func() {
			defer func() {
				if r := recover(); r != nil {
					res.failf("Verify panicked: %v", r)
				}
			}()
			err = header.Verify(tr, un)
		}()
		if res.Verdict != "" {
			return
		}

		boundary := s.NowRel >= 1 && s.NowRel <= 3 || s.TTRel <= 2 || s.UHRel == 5 && s.TH == math.MaxUint64 ||
			s.TypeRes >= 4 || (s.UHRel == 2 && c01TypeSoft(s.TypeRes))
		res.NonTrivial = len(failing) >= 2 || boundary
		res.SigKey = []any{s.TNil, s.UNil, s.ChainRel, s.UHRel, s.NowRel, s.TTRel, s.TypeRes, s.TH == math.MaxUint64, s.TH == 0}
		res.label(fmt.Sprintf("mandatory_failing=%d", len(failing)), fmt.Sprintf("type_result=%d", s.TypeRes))
		res.Obs = map[string]any{"err": fmt.Sprint(err), "trusted": tr.String(), "untrusted": un.String(), "model_failing": fmt.Sprint(failing)}

		var ve *header.VerifyError
		switch {
		case len(failing) > 0:
			if err == nil {
				res.failf("Verify returned nil although mandatory conditions fail: %v", failing)
				return
			}
			if !errors.As(err, &ve) {
				res.failf("rejection is not a *VerifyError: %T %v", err, err)
				return
			}
			ok := false
			for _, f := range failing {
				if errors.Is(err, f) {
					ok = true
				}
			}
			if !ok {
				res.failf("rejection %q wraps none of the failing sentinels %v", err, failing)
				return
			}
			if ve.SoftFailure {
				res.failf("SoftFailure set for a failed mandatory check: %v", err)
			}
		case s.TypeRes == 0:
			if err != nil {
				res.failf("Verify rejected a pair that passes every mandatory and the type-level check: %v", err)
			}
		default:
			if err == nil {
				res.failf("Verify returned nil although the type-level Verify rejected")
				return
			}
			if !errors.As(err, &ve) {
				res.failf("rejection is not a *VerifyError: %T %v", err, err)
				return
			}
			if !errors.Is(err, errC01Leaf) {
				res.failf("rejection %q does not wrap the type's own error", err)
				return
			}
			adjacent := un.H == tr.H+1
			wantSoft := !adjacent || c01TypeSoft(s.TypeRes)
			if ve.SoftFailure != wantSoft {
				res.failf("SoftFailure=%v, want %v (adjacent=%v, type reported soft=%v)", ve.SoftFailure, wantSoft, adjacent, c01TypeSoft(s.TypeRes))
			}
		}
	})
	return res
}

func TestC01(t *testing.T) { check(t, "C01", genC01, runC01) }

func TestC01Replay(t *testing.T) { replay(t, "C01", runC01) }

// TestC01Enum enumerates the complete product of feature classes with representative magnitudes.
func TestC01Enum(t *testing.T) {
	col := evid.For("C01")
	n := 0
	for _, tn := range []bool{false, true} {
		for _, un := range []bool{false, true} {
			for ch := 0; ch < c01ChainClasses; ch++ {
				for _, th := range c01THs {
					for uh := 0; uh < c01UHClasses; uh++ {
						for nr := 0; nr < c01NowClasses; nr++ {
							for tt := 0; tt < c01TTClasses; tt++ {
								for ty := 0; ty < c01TypeClasses; ty++ {
									s := C01Scenario{TNil: tn, UNil: un, ChainRel: ch, TH: th, UHRel: uh, UHMag: 1000,
										NowRel: nr, NowMagMs: 5000, TTRel: tt, TTMagMs: 5000, TypeRes: ty}
									res := runC01(t, s)
									col.Case(s, res.NonTrivial, res.SigKey, "enumerated")
									n++
									if res.Verdict != "" {
										p := evid.WriteReplay("C01", s, res.Verdict)
										t.Fatalf("C01 violated: %s\nscenario %+v\nobs %v\nreplay: %s", res.Verdict, s, res.Obs, p)
									}
								}
							}
						}
					}
				}
			}
		}
	}
	col.AddExtra("enumerated_class_product", int64(n))
}
