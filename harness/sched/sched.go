// Package sched is a controlled scheduler on top of testing/synctest: goroutines park at
// Yield(point); the controller (the bubble's root goroutine) waits until every goroutine is
// durably blocked, then releases exactly one parked goroutine chosen by a tape of integers.
// With GOMAXPROCS=1 the explored space is "all interleavings at yield-point granularity" and a
// schedule is a slice of small integers that rapid can shrink.
package sched

import (
	"bytes"
	"fmt"
	"runtime"
	"sort"
	"strconv"
	"strings"
	"sync"
	"testing/synctest"
	"time"
)

// goid returns the id of the calling goroutine (parsed from its stack header; test-harness use only).
func goid() uint64 {
	var buf [64]byte
	n := runtime.Stack(buf[:], false)
	f := bytes.Fields(buf[:n])
	if len(f) < 2 {
		return 0
	}
	id, _ := strconv.ParseUint(string(f[1]), 10, 64)
	return id
}

type waiter struct {
	point string
	ch    chan struct{}
	gid   uint64
	lock  string // the goroutine is about to lock this emulated mutex ("<name>:lock" point)
}

// Stick is the smallest tape value that means "release the goroutine released last time again, if it is
// parked" (depth-first runs of one goroutine, e.g. through a chain of datastore accesses).
const Stick = 10

// Step is one release decision of the controller.
type Step struct {
	Point  string   `json:"point"`
	K      int      `json:"k"`
	Others []string `json:"others,omitempty"` // points of the goroutines left parked
	N      int      `json:"n,omitempty"`      // number of goroutines that could have been released (eligible)
}

func (st Step) String() string { return fmt.Sprintf("%s(%d|%v)", st.Point, st.K, st.Others) }

// Sched is one controlled schedule.
type Sched struct {
	mu     sync.Mutex
	parked []*waiter
	off    bool
	Trace  []Step
	// OnStep, if set, is called by the controller before each release with the step index
	// (used to cancel contexts at drawn steps).
	OnStep func(step int)
	// Steps counts releases performed.
	Steps int
	// locked holds the goroutines that are inside a critical section announced by the marker points
	// "<x>:locked" / "<x>:unlocking". A goroutine parked while it holds a mutex that another goroutine
	// needs would leave that goroutine blocked non-durably and synctest.Wait would never return, so such
	// a goroutine is never parked.
	locked map[uint64]int
	// SkippedLocked counts yield points passed without parking for that reason.
	SkippedLocked int
	last          uint64 // goroutine released at the previous step
	// Canonical orders the parked goroutines by role name (w0, w1, d, flush, r0 ...; learned from their
	// role-specific yield points) instead of arrival order, so that a tape means the same schedule even if
	// goroutines that became runnable together reach their yield points in a different order.
	Canonical bool
	roles     map[uint64]string
	// held maps the name of an announced mutex ("<name>:lock" before Lock, "<name>:acquired" after it,
	// "<name>:released" after Unlock) to its holder. A goroutine parked at "<name>:lock" is released only
	// while nobody holds <name>, so the real Lock never blocks and holders may be parked inside the critical
	// section like everybody else.
	held map[string]uint64
}

func roleOf(point string) string {
	i := strings.IndexByte(point, ':')
	if i <= 0 {
		return ""
	}
	p := point[:i]
	if p == "d" || p == "flush" {
		return p
	}
	if len(p) >= 2 && (p[0] == 'w' || p[0] == 'r' || p[0] == 'g' || p[0] == 'h') && p[1] >= '0' && p[1] <= '9' {
		return p
	}
	return ""
}

// New returns an active scheduler.
func New() *Sched {
	return &Sched{locked: map[uint64]int{}, roles: map[uint64]string{}, held: map[string]uint64{}}
}

// Yield parks the calling goroutine until the controller releases it.
func (s *Sched) Yield(point string) {
	s.mu.Lock()
	if s.off {
		s.mu.Unlock()
		return
	}
	switch {
	case strings.HasSuffix(point, ":locked"):
		s.locked[goid()]++
		s.mu.Unlock()
		return
	case strings.HasSuffix(point, ":acquired"):
		s.held[strings.TrimSuffix(point, ":acquired")] = goid()
		s.mu.Unlock()
		return
	case strings.HasSuffix(point, ":released"):
		delete(s.held, strings.TrimSuffix(point, ":released"))
		s.mu.Unlock()
		return
	case strings.HasSuffix(point, ":unlocking"):
		id := goid()
		if s.locked[id] > 0 {
			s.locked[id]--
		}
		if s.locked[id] == 0 {
			delete(s.locked, id)
		}
		s.mu.Unlock()
		return
	}
	if len(s.locked) > 0 && s.locked[goid()] > 0 {
		s.SkippedLocked++
		s.mu.Unlock()
		return
	}
	w := &waiter{point: point, ch: make(chan struct{}), gid: goid()}
	if strings.HasSuffix(point, ":lock") {
		w.lock = strings.TrimSuffix(point, ":lock")
	}
	if r := roleOf(point); r != "" {
		s.roles[w.gid] = r
	}
	s.parked = append(s.parked, w)
	s.mu.Unlock()
	<-w.ch
}

// Off disables the scheduler and releases everything parked.
func (s *Sched) Off() {
	s.mu.Lock()
	s.off = true
	ws := s.parked
	s.parked = nil
	s.mu.Unlock()
	for _, w := range ws {
		close(w.ch)
	}
}

// Run drives the schedule until done() reports true at a quiescent point with nothing parked,
// or maxSteps releases happened. tape[i] picks among the goroutines parked at step i (mod their
// number); after the tape is exhausted the oldest parked goroutine is released. When nothing is
// parked and done() is false, virtual time is advanced by tick (timers, retry sleeps).
func (s *Sched) Run(tape []int, done func() bool, maxSteps int, tick time.Duration) (finished bool) {
	idle := 0
	for s.Steps < maxSteps {
		synctest.Wait()
		s.mu.Lock()
		n := len(s.parked)
		if n == 0 {
			s.mu.Unlock()
			if done() {
				return true
			}
			idle++
			if idle > 200 {
				return false
			}
			time.Sleep(tick)
			continue
		}
		// goroutines waiting for an emulated mutex that is held are not eligible
		elig := make([]int, 0, n)
		for i, w := range s.parked {
			if w.lock == "" || s.held[w.lock] == 0 {
				elig = append(elig, i)
			}
		}
		if len(elig) == 0 {
			// everybody parked waits for a mutex whose holder is busy elsewhere (sleeping, blocked): let time pass
			s.mu.Unlock()
			idle++
			if idle > 200 {
				return false
			}
			time.Sleep(tick)
			continue
		}
		idle = 0
		if s.Canonical {
			sort.SliceStable(s.parked, func(i, j int) bool {
				ri, rj := s.roles[s.parked[i].gid], s.roles[s.parked[j].gid]
				if ri != rj {
					return ri < rj
				}
				return s.parked[i].point < s.parked[j].point
			})
		}
		if s.Canonical {
			// recompute after sorting
			elig = elig[:0]
			for i, w := range s.parked {
				if w.lock == "" || s.held[w.lock] == 0 {
					elig = append(elig, i)
				}
			}
		}
		ke := 0
		if s.Steps < len(tape) {
			tv := tape[s.Steps]
			if tv < 0 {
				tv = -tv
			}
			ke = tv % len(elig)
			if tv >= Stick {
				for j, i := range elig {
					if s.parked[i].gid == s.last {
						ke = j
						break
					}
				}
			}
		}
		k := elig[ke]
		w := s.parked[k]
		s.last = w.gid
		s.parked = append(s.parked[:k:k], s.parked[k+1:]...)
		others := make([]string, 0, len(s.parked))
		for _, o := range s.parked {
			others = append(others, o.point)
		}
		s.Trace = append(s.Trace, Step{Point: w.point, K: ke, Others: others, N: len(elig)})
		step := s.Steps
		s.Steps++
		s.mu.Unlock()
		if s.OnStep != nil {
			s.OnStep(step)
		}
		close(w.ch)
	}
	return false
}
