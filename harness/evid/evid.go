// Package evid collects what a run actually covered and writes it out for the driver.
package evid

import (
	"encoding/json"
	"fmt"
	"hash/fnv"
	"os"
	"path/filepath"
	"sort"
	"sync"
)

// Collector gathers coverage statistics of one property in one process.
type Collector struct {
	mu         sync.Mutex
	Property   string
	Evals      int64
	Sigs       map[uint64]struct{}
	Labels     map[string]int64
	Excluded   map[string]int64
	KnownHits  map[string]int64
	first      json.RawMessage
	largest    json.RawMessage
	largestLen int
	reservoir  json.RawMessage
	resKey     uint64
	Extra      map[string]int64
}

var (
	regMu sync.Mutex
	reg   = map[string]*Collector{}
)

// For returns the process-wide collector of a property.
func For(prop string) *Collector {
	regMu.Lock()
	defer regMu.Unlock()
	c, ok := reg[prop]
	if !ok {
		c = &Collector{Property: prop, Sigs: map[uint64]struct{}{}, Labels: map[string]int64{},
			Excluded: map[string]int64{}, KnownHits: map[string]int64{}, Extra: map[string]int64{}}
		reg[prop] = c
	}
	return c
}

// Sig hashes a canonical representation.
func Sig(v any) uint64 {
	b, _ := json.Marshal(v)
	h := fnv.New64a()
	h.Write(b)
	return h.Sum64()
}

// Case records one executed case. nontrivial says whether it satisfies the property's
// non-triviality rule; sigKey is what distinctness is measured on (nil = the scenario itself).
func (c *Collector) Case(scenario any, nontrivial bool, sigKey any, labels ...string) {
	b, _ := json.Marshal(scenario)
	c.mu.Lock()
	defer c.mu.Unlock()
	c.Evals++
	for _, l := range labels {
		c.Labels[l]++
	}
	if nontrivial {
		var s uint64
		if sigKey != nil {
			s = Sig(sigKey)
		} else {
			h := fnv.New64a()
			h.Write(b)
			s = h.Sum64()
		}
		c.Sigs[s] = struct{}{}
	}
	if c.first == nil {
		c.first = b
	}
	if len(b) > c.largestLen && len(b) < 1<<16 {
		c.largest, c.largestLen = b, len(b)
	}
	if nontrivial {
		h := fnv.New64a()
		h.Write(b)
		k := h.Sum64()
		if c.reservoir == nil || k < c.resKey {
			c.reservoir, c.resKey = b, k
		}
	}
}

// Label counts a label without counting a case.
func (c *Collector) Label(l string, n int64) {
	c.mu.Lock()
	c.Labels[l] += n
	c.mu.Unlock()
}

// Exclude counts a case (or shape) excluded by a documented precondition.
func (c *Collector) Exclude(why string) {
	c.mu.Lock()
	c.Excluded[why]++
	c.mu.Unlock()
}

// Known counts a hit of a known finding.
func (c *Collector) Known(key string) {
	c.mu.Lock()
	c.KnownHits[key]++
	c.mu.Unlock()
}

// AddEvals adds evaluations that are not scenario cases (fuzz execs, enumerated crash points…).
func (c *Collector) AddExtra(k string, n int64) {
	c.mu.Lock()
	c.Extra[k] += n
	c.mu.Unlock()
}

type dump struct {
	Property  string            `json:"property"`
	Evals     int64             `json:"evals"`
	Sigs      []uint64          `json:"sigs"`
	Labels    map[string]int64  `json:"labels"`
	Excluded  map[string]int64  `json:"excluded"`
	KnownHits map[string]int64  `json:"known_hits"`
	Extra     map[string]int64  `json:"extra"`
	Samples   []json.RawMessage `json:"samples"`
}

// DumpAll writes every collector to $VERIF_OUT/stats-<prop>-<shard>.json.
func DumpAll() {
	out := os.Getenv("VERIF_OUT")
	if out == "" {
		return
	}
	shard := os.Getenv("VERIF_SHARD")
	regMu.Lock()
	defer regMu.Unlock()
	for p, c := range reg {
		c.mu.Lock()
		d := dump{Property: p, Evals: c.Evals, Labels: c.Labels, Excluded: c.Excluded, KnownHits: c.KnownHits, Extra: c.Extra}
		for s := range c.Sigs {
			d.Sigs = append(d.Sigs, s)
		}
		sort.Slice(d.Sigs, func(i, j int) bool { return d.Sigs[i] < d.Sigs[j] })
		for _, s := range []json.RawMessage{c.first, c.reservoir, c.largest} {
			if s != nil {
				d.Samples = append(d.Samples, s)
			}
		}
		c.mu.Unlock()
		b, _ := json.Marshal(d)
		_ = os.WriteFile(filepath.Join(out, fmt.Sprintf("stats-%s-%s.json", p, shard)), b, 0o644)
	}
}

// WriteReplay writes a failing scenario as the replay file of this shard and returns the path.
func WriteReplay(prop string, scenario any, verdict string) string {
	out := os.Getenv("VERIF_OUT")
	if out == "" {
		out = os.TempDir()
	}
	p := filepath.Join(out, fmt.Sprintf("fail-%s-%s.json", prop, os.Getenv("VERIF_SHARD")))
	b, _ := json.MarshalIndent(map[string]any{"property": prop, "verdict": verdict, "scenario": scenario}, "", " ")
	_ = os.WriteFile(p, b, 0o644)
	return p
}

// WriteCurrent records the scenario about to be executed (crash attribution).
func WriteCurrent(prop string, scenario any) {
	out := os.Getenv("VERIF_OUT")
	if out == "" {
		return
	}
	p := filepath.Join(out, fmt.Sprintf("current-%s-%s.json", prop, os.Getenv("VERIF_SHARD")))
	b, _ := json.Marshal(map[string]any{"property": prop, "verdict": "crash (process died while executing this scenario)", "scenario": scenario})
	_ = os.WriteFile(p, b, 0o644)
}

// ReadReplay loads the scenario of a replay file into v.
func ReadReplay(path string, v any) error {
	b, err := os.ReadFile(path)
	if err != nil {
		return err
	}
	var w struct {
		Scenario json.RawMessage `json:"scenario"`
	}
	if err := json.Unmarshal(b, &w); err != nil {
		return err
	}
	return json.Unmarshal(w.Scenario, v)
}
