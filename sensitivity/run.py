#!/usr/bin/env python3
"""Applies each hand-written mutant to /repo, runs the quick tier of the properties expected to catch it,
reverts, and writes RESULTS.md. Usage: run.py [name-substring ...]"""
import os, subprocess, sys, time
sys.path.insert(0, os.path.dirname(os.path.abspath(__file__)))
from mutants import M
REPO = "/repo"
sel = sys.argv[1:]
rows = []
GO = "/root/go/pkg/mod/golang.org/toolchain@v0.0.1-go1.25.7.linux-amd64/bin/go"
env = dict(os.environ, GOFLAGS="-mod=mod", GOPROXY="off", GOSUMDB="off", GOTOOLCHAIN="local")
assert subprocess.run(["git", "-C", REPO, "status", "--porcelain"], capture_output=True, text=True).stdout.strip() == "", "repo dirty"
for name, props, path, old, new in M:
    if sel and not any(s in name for s in sel):
        continue
    p = os.path.join(REPO, path)
    src = open(p).read()
    if src.count(old) != 1:
        rows.append((name, props, "MUTANT-STALE (pattern count %d)" % src.count(old), "", ""))
        print(name, "STALE", src.count(old)); continue
    try:
        open(p, "w").write(src.replace(old, new))
        b = subprocess.run([GO, "build", "./..."], cwd=REPO, env=env, capture_output=True, text=True)
        if b.returncode != 0:
            rows.append((name, props, "DOES-NOT-COMPILE", "", b.stderr[:200])); print(name, "NOCOMPILE", b.stderr[:300]); continue
        pkg = "./" + os.path.dirname(path) if os.path.dirname(path) else "."
        t = subprocess.run([GO, "test", "-vet=off", "-count=1", pkg, "./headertest/"], cwd=REPO, env=env, capture_output=True, text=True)
        suite = "suite-pass" if t.returncode == 0 else "suite-FAILS"
        res = []
        for pr in props:
            t0 = time.time()
            c = subprocess.run(["./check", pr, "quick"], cwd="/verif", capture_output=True, text=True)
            res.append("%s:%s(%.0fs)" % (pr, {0: "MISSED", 1: "caught", 2: "inconclusive"}.get(c.returncode, str(c.returncode)), time.time() - t0))
        rows.append((name, props, suite, " ".join(res), ""))
        print(name, suite, " ".join(res), flush=True)
    finally:
        subprocess.run(["git", "-C", REPO, "checkout", "--", "."], check=True)
with open(os.path.join(os.path.dirname(os.path.abspath(__file__)), "RESULTS.md"), "a") as f:
    f.write("\n## run at %s (VERIF_SEED=%s)\n\n| mutant | expected | existing tests of the package | quick tier |\n|---|---|---|---|\n" % (time.strftime("%F %T"), os.environ.get("VERIF_SEED", "1")))
    for name, props, suite, res, note in rows:
        f.write("| %s | %s | %s | %s %s |\n" % (name, ",".join(props), suite, res, note))
