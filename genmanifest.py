#!/usr/bin/env python3
"""Regenerates MANIFEST.json from checkcfg.py (single source of truth)."""
import json, os, subprocess, sys
sys.path.insert(0, os.path.dirname(os.path.abspath(__file__)))
from checkcfg import PROPS, NOT_APPLICABLE
HOOK_COMMITS = subprocess.run(['git','-C','/repo','log','--format=%H','--grep=^verif hook'],capture_output=True,text=True).stdout.split()

ids = [json.loads(l)["id"] for l in open("/verif/properties.jsonl")]
checks = []
for pid in ids:
    if pid not in PROPS:
        continue
    c = PROPS[pid]
    checks.append({
        "property_id": pid,
        "quick_cmd": "./check %s quick" % pid,
        "thorough_cmd": "./check %s thorough" % pid,
        "evidence_file": "/verif/evidence/%s.json" % pid,
        "replay_cmd_template": "./check %s quick --replay {path}" % pid,
        "engine": "harness",
        "level_claimed": {"category": c["level"], "text": c["level_text"], "design_ref": "DESIGN.md §4 " + pid},
        "level_note": c["level_note"],
        "technique": c["technique"],
    })
na = [{"property_id": p, "reason": NOT_APPLICABLE.get(p, "check not built yet in this session (work in progress)")} for p in ids if p not in PROPS]
m = {
    "version": 1,
    "setup_cmd": "./setup.sh",
    "hooks": {
        "guard": "verif",
        "enable": "go test -tags verif (the harness module /verif/harness replaces github.com/celestiaorg/go-header with /repo and builds it with -tags verif)",
        "baseline_off_cmd": "cd /repo && go test -vet=off -count=1 -timeout 25m ./...",
        "source_commits": HOOK_COMMITS,
        "add_only": True,
    },
    "engines": [{"name": "harness", "path": "/verif/harness", "serves_properties": [c["property_id"] for c in checks],
                 "kind_free_text": "Go module: rapid generators + testing/synctest executors + native fuzz targets, driven by /verif/check"}],
    "checks": checks,
    "not_applicable": na,
    "notes": "Property-based testing and fuzzing only. ./check <id> quick|thorough; VERIF_SEED selects the rapid seeds. See DESIGN.md.",
}
json.dump(m, open("/verif/MANIFEST.json", "w"), indent=1)
print("wrote MANIFEST.json with", len(checks), "checks,", len(na), "not_applicable")
