#!/bin/bash
# runtier.sh quick|thorough [ids...] : runs the tier of every (or the given) property one after the other,
# prints one line per property and a summary; exit 0 only if every check exited 0.
cd "$(dirname "$0")"; TIER="${1:-quick}"; shift
IDS="$@"; [ -n "$IDS" ] || IDS=$(python3 -c "import json;print(' '.join(json.loads(l)['id'] for l in open('properties.jsonl')))")
bad=0
for p in $IDS; do
  t0=$(date +%s)
  out=$(./check $p $TIER 2>&1); rc=$?
  echo "$p $TIER rc=$rc $(( $(date +%s) - t0 ))s :: $(echo "$out" | grep -E '^(OK|VIOLATION|INCONCLUSIVE|KNOWN-FINDING)' | cut -c1-160 | tr '\n' '|')"
  [ $rc -eq 0 ] || bad=1
done
exit $bad
