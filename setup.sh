#!/bin/sh
# Builds the harness test binary offline from files on disk (also warms the Go build cache).
set -e
cd "$(dirname "$0")/harness"
export GOFLAGS=-mod=mod GOPROXY=off GOSUMDB=off GOTOOLCHAIN=local
GO=/root/go/pkg/mod/golang.org/toolchain@v0.0.1-go1.25.7.linux-amd64/bin/go
[ -x "$GO" ] || GO=/opt/veriftools/go1.26.8/bin/go
[ -x "$GO" ] || GO=go
mkdir -p ../.build ../evidence ../replays
"$GO" test -c -tags verif -o ../.build/props.test ./props
"$GO" test -c -race -tags verif -o ../.build/props-race.test ./props
echo "setup ok: $($GO version)"
